// Package fsx executes model operations (treefs.Op) against a real goatcore Filespace,
// walks its observable tree, and compares outcomes with the model's expectation.
package fsx

import (
	"fmt"
	"io"
	"os"
	"sort"
	"strings"
	"time"

	"github.com/goatcms/goatcore/filesystem"

	"verif/models/treefs"
)

// Result of one executed operation.
type Result struct {
	Err   string // "" = success
	Panic string
	Data  string
	List  []string
	Bool  bool
	Name  string
	IsDir bool
	Size  int64  // Lstat of a file (-1 for directories)
	Note  string // stream anomalies etc.
}

// OK reports success without panic.
func (r Result) OK() bool { return r.Err == "" && r.Panic == "" }

type poison struct{}

func (poison) Name() string       { return "#poison#" }
func (poison) Size() int64        { return 0 }
func (poison) Mode() os.FileMode  { return 0 }
func (poison) ModTime() time.Time { return time.Time{} }
func (poison) IsDir() bool        { return false }
func (poison) Sys() interface{}   { return nil }

func scribble(b []byte) {
	for i := range b {
		b[i] = '#'
	}
}

// View resolves the view chain.
func View(root filesystem.Filespace, chain []string) (fs filesystem.Filespace, err error) {
	fs = root
	for _, v := range chain {
		if fs, err = fs.Filespace(v); err != nil {
			return nil, err
		}
		if fs == nil {
			return nil, fmt.Errorf("Filespace(%q) returned nil without error", v)
		}
	}
	return fs, nil
}

// Exec runs op on root (through op.View). Every byte slice handed in is scribbled over after
// the call and every slice handed out is scribbled over after it was copied, so that aliasing
// in either direction shows up in the next tree walk.
func Exec(root filesystem.Filespace, op treefs.Op) (r Result) {
	defer func() {
		if p := recover(); p != nil {
			r.Panic = fmt.Sprint(p)
		}
	}()
	fs, err := View(root, op.View)
	if err != nil {
		r.Err = "view: " + err.Error()
		return
	}
	seterr := func(e error) {
		if e != nil {
			r.Err = e.Error()
			if r.Err == "" {
				r.Err = "(empty error text)"
			}
		}
	}
	switch op.Kind {
	case "ReadDir":
		l, e := fs.ReadDir(op.P)
		seterr(e)
		if e == nil {
			for _, n := range l {
				if n == nil {
					r.List = append(r.List, "<nil entry>")
					continue
				}
				if n.IsDir() {
					r.List = append(r.List, n.Name()+"/")
				} else {
					r.List = append(r.List, n.Name())
				}
			}
			sort.Strings(r.List)
			for i := range l {
				l[i] = poison{}
			}
		}
	case "IsExist":
		r.Bool = fs.IsExist(op.P)
	case "IsFile":
		r.Bool = fs.IsFile(op.P)
	case "IsDir":
		r.Bool = fs.IsDir(op.P)
	case "Lstat":
		fi, e := fs.Lstat(op.P)
		seterr(e)
		if e == nil {
			if fi == nil {
				r.Err = "Lstat returned nil, nil"
			} else {
				r.Name, r.IsDir = fi.Name(), fi.IsDir()
				r.Size = -1
				if !fi.IsDir() {
					r.Size = fi.Size()
				}
			}
		}
	case "ReadFile":
		d, e := fs.ReadFile(op.P)
		seterr(e)
		if e == nil {
			r.Data = string(d)
			scribble(d)
		}
	case "Reader":
		rd, e := fs.Reader(op.P)
		seterr(e)
		if e == nil {
			n := op.Buf
			if n <= 0 {
				n = 64
			}
			switch op.Via {
			case "copy", "head+copy":
				// the reader's optional fast path (WriteTo through io.Copy), alone or after a header
				// of op.Buf bytes was taken with Read
				var sb strings.Builder
				if op.Via == "head+copy" {
					head := make([]byte, n)
					k, he := io.ReadFull(rd, head)
					sb.Write(head[:k])
					if he != nil && he != io.EOF && he != io.ErrUnexpectedEOF {
						seterr(he)
					}
				}
				if r.Err == "" {
					if _, ce := io.Copy(&sb, rd); ce != nil {
						seterr(ce)
					}
				}
				r.Data = sb.String()
			default:
				r.Data, r.Note, e = ReadAllBuf(rd, n)
				seterr(e)
			}
			if ce := rd.Close(); ce != nil && r.Err == "" {
				seterr(ce)
			}
		}
	case "WriteFile":
		b := []byte(op.Data)
		seterr(fs.WriteFile(op.P, b, 0644))
		scribble(b)
	case "Writer":
		w, e := fs.Writer(op.P)
		seterr(e)
		if e == nil && op.Via == "copy" {
			// io.Copy prefers the destination's ReadFrom when it has one
			if _, we := io.Copy(w, strings.NewReader(strings.Join(op.Chunks, ""))); we != nil {
				seterr(we)
			}
			if ce := w.Close(); ce != nil && r.Err == "" {
				seterr(ce)
			}
		} else if e == nil {
			for ci, c := range op.Chunks {
				if op.Via == "mixed" && ci%3 == 2 {
					// every third chunk goes through io.Copy (ReadFrom), every second through
					// io.WriteString, the rest through Write: one handle, all entry points
					if _, we := io.Copy(w, strings.NewReader(c)); we != nil {
						seterr(we)
						break
					}
					continue
				}
				if op.Via == "string" || (op.Via == "mixed" && ci%3 == 1) {
					// io.WriteString prefers the destination's WriteString when it has one
					if _, we := io.WriteString(w, c); we != nil {
						seterr(we)
						break
					}
					continue
				}
				b := []byte(c)
				n, we := w.Write(b)
				scribble(b)
				if we != nil {
					seterr(we)
					break
				}
				if n != len(c) {
					r.Note += fmt.Sprintf("short write %d of %d;", n, len(c))
				}
			}
			if ce := w.Close(); ce != nil && r.Err == "" {
				seterr(ce)
			}
		}
	case "MkdirAll":
		seterr(fs.MkdirAll(op.P, 0777))
	case "Remove":
		seterr(fs.Remove(op.P))
	case "RemoveAll":
		seterr(fs.RemoveAll(op.P))
	case "CopyFile":
		seterr(fs.CopyFile(op.P, op.Q))
	case "CopyDirectory":
		seterr(fs.CopyDirectory(op.P, op.Q))
	case "Copy":
		seterr(fs.Copy(op.P, op.Q))
	default:
		r.Err = "unknown op " + op.Kind
	}
	return
}

// ReadAllBuf drains a reader with a fixed buffer size.
func ReadAllBuf(rd io.Reader, n int) (data string, note string, err error) {
	buf := make([]byte, n)
	var sb strings.Builder
	zero := 0
	for i := 0; i < 1<<20; i++ {
		k, e := rd.Read(buf)
		if k < 0 || k > len(buf) {
			return sb.String(), note, fmt.Errorf("Read returned n=%d for a buffer of %d", k, len(buf))
		}
		sb.Write(buf[:k])
		if e == io.EOF {
			return sb.String(), note, nil
		}
		if e != nil {
			return sb.String(), note, e
		}
		if k == 0 {
			zero++
			if zero > 3 {
				return sb.String(), note, fmt.Errorf("reader makes no progress (0, nil) repeatedly")
			}
		} else {
			zero = 0
		}
	}
	return sb.String(), note, fmt.Errorf("reader never reached EOF")
}

// Walk snapshots the observable tree below fs: path -> "dir" | "file:<data>", and reports
// structural problems (phantom names, duplicates, listed names that do not resolve,
// queries that disagree with the listing).
func Walk(fs filesystem.Filespace) (flat map[string]string, problems []string) {
	flat = map[string]string{}
	defer func() {
		if p := recover(); p != nil {
			problems = append(problems, fmt.Sprintf("panic during tree walk: %v", p))
		}
	}()
	var walk func(dir string, depth int)
	walk = func(dir string, depth int) {
		if depth > 12 {
			problems = append(problems, "tree deeper than 12 at "+dir)
			return
		}
		lp := dir
		if lp == "" {
			lp = "."
		}
		l, err := fs.ReadDir(lp)
		if err != nil {
			problems = append(problems, fmt.Sprintf("ReadDir(%q) of a listed directory fails: %v", lp, err))
			return
		}
		seen := map[string]bool{}
		for _, n := range l {
			if n == nil {
				problems = append(problems, fmt.Sprintf("nil entry in listing of %q", lp))
				continue
			}
			name := n.Name()
			if name == "" || name == "." || name == ".." || strings.Contains(name, "/") || name == "#poison#" {
				problems = append(problems, fmt.Sprintf("phantom entry %q in listing of %q", name, lp))
				continue
			}
			if seen[name] {
				problems = append(problems, fmt.Sprintf("name %q listed twice in %q", name, lp))
				continue
			}
			seen[name] = true
			p := name
			if dir != "" {
				p = dir + "/" + name
			}
			isDir := n.IsDir()
			if !fs.IsExist(p) {
				problems = append(problems, fmt.Sprintf("listed node %q: IsExist is false", p))
			}
			if fs.IsDir(p) != isDir {
				problems = append(problems, fmt.Sprintf("listed node %q: IsDir=%v but entry.IsDir=%v", p, !isDir, isDir))
			}
			if fs.IsFile(p) == isDir {
				problems = append(problems, fmt.Sprintf("listed node %q: IsFile=%v but entry.IsDir=%v", p, isDir, isDir))
			}
			if fi, err := fs.Lstat(p); err != nil || fi == nil {
				problems = append(problems, fmt.Sprintf("listed node %q: Lstat fails: %v", p, err))
			} else if fi.Name() != name || fi.IsDir() != isDir {
				problems = append(problems, fmt.Sprintf("listed node %q: Lstat says name=%q dir=%v", p, fi.Name(), fi.IsDir()))
			}
			if isDir {
				flat[p] = "dir"
				walk(p, depth+1)
			} else {
				d, err := fs.ReadFile(p)
				if err != nil {
					problems = append(problems, fmt.Sprintf("listed file %q: ReadFile fails: %v", p, err))
					continue
				}
				flat[p] = "file:" + string(d)
			}
		}
	}
	walk("", 0)
	return
}

// FlatKey canonicalises a snapshot.
func FlatKey(flat map[string]string) string {
	var l []string
	for p, v := range flat {
		l = append(l, p+"="+v)
	}
	sort.Strings(l)
	return strings.Join(l, "\n")
}

// ModelFlat renders a model tree the same way.
func ModelFlat(t *treefs.Node) map[string]string { return t.Flat() }

// CheckSizes makes Compare judge Lstat().Size() of files (plaintext backends only: an encrypted
// filespace legitimately reports the stored size).
var CheckSizes = false

// Mismatch describes how an implementation step deviates from the model.
type Mismatch struct {
	Clause string
	Kind   string // short stable kind used in signatures
	Detail string
}

// Compare checks one executed op against the model expectation. before/after are the
// walked snapshots of the implementation around the op (before must equal the model tree).
func Compare(t *treefs.Node, op treefs.Op, e treefs.Expect, r Result, after map[string]string, afterProblems []string) *Mismatch {
	if r.Panic != "" {
		return &Mismatch{"no operation panics", "panic", fmt.Sprintf("panic: %s", r.Panic)}
	}
	if len(afterProblems) > 0 {
		return &Mismatch{"no node that was never created appears; queries agree with the tree", "structure:" + problemKind(afterProblems[0]), strings.Join(afterProblems, "; ")}
	}
	before := t.Flat()
	okTree := before
	if e.After != nil {
		okTree = e.After.Flat()
	}
	same := func(a, b map[string]string) bool { return FlatKey(a) == FlatKey(b) }
	diff := func(want, got map[string]string) string { return DiffFlat(want, got) }
	if e.Class == treefs.Unspecified {
		if ok, why := treefs.FrameOK(before, after, e.Touched); !ok {
			return &Mismatch{"nothing outside the addressed paths changes", "frame", "unspecified outcome, but a node outside the addressed subtrees changed: " + why}
		}
		return nil
	}
	success := r.Err == ""
	if op.Kind == "IsExist" || op.Kind == "IsFile" || op.Kind == "IsDir" {
		okv := false
		for _, b := range e.BoolAlt {
			if b == r.Bool {
				okv = true
			}
		}
		if !okv {
			return &Mismatch{"queries agree with the tree", "query", fmt.Sprintf("returned %v, model allows %v (%s)", r.Bool, e.BoolAlt, e.Why)}
		}
		if !same(before, after) {
			return &Mismatch{"a query does not change the tree", "query-mutates", diff(before, after)}
		}
		return nil
	}
	if success {
		if e.Class == treefs.MustFail {
			return &Mismatch{"operation must be refused", "must-fail-succeeded", fmt.Sprintf("succeeded but the model requires an error: %s; tree change: %s", e.Why, diff(before, after))}
		}
		if !same(okTree, after) {
			return &Mismatch{"the whole observable tree equals the model's", "wrong-effect", fmt.Sprintf("%s; tree differs from the model after the successful op: %s", e.Why, diff(okTree, after))}
		}
		switch op.Kind {
		case "ReadFile", "Reader":
			if r.Data != e.Data {
				return &Mismatch{"a read returns exactly the stored bytes", "wrong-data", fmt.Sprintf("returned %q, stored %q %s", r.Data, e.Data, r.Note)}
			}
		case "ReadDir":
			if strings.Join(r.List, ",") != strings.Join(e.List, ",") {
				return &Mismatch{"listing equals the directory's children, each once", "wrong-listing", fmt.Sprintf("returned %v, model %v", r.List, e.List)}
			}
		case "Lstat":
			if r.IsDir != e.IsDir || (e.Name != "" && r.Name != e.Name) {
				return &Mismatch{"stat agrees with the tree", "wrong-stat", fmt.Sprintf("returned name=%q dir=%v, model name=%q dir=%v", r.Name, r.IsDir, e.Name, e.IsDir)}
			}
			if CheckSizes && !e.IsDir && r.Size != int64(e.Size) {
				return &Mismatch{"stat agrees with the tree", "wrong-stat-size", fmt.Sprintf("file of %d bytes: Lstat().Size() = %d", e.Size, r.Size)}
			}
		case "Writer":
			if r.Note != "" {
				return &Mismatch{"writer accepts every chunk completely", "short-write", r.Note}
			}
		}
		return nil
	}
	// the op reported an error
	if e.Class == treefs.MustOK {
		return &Mismatch{"operation with met preconditions must succeed", "must-ok-failed", fmt.Sprintf("%s, but it failed: %s", e.Why, r.Err)}
	}
	if !same(before, after) {
		return &Mismatch{"a failed operation leaves the tree unchanged", "failed-but-changed", fmt.Sprintf("error %q but the tree changed: %s", r.Err, diff(before, after))}
	}
	return nil
}

func problemKind(p string) string {
	switch {
	case strings.Contains(p, "phantom"):
		return "phantom"
	case strings.Contains(p, "twice"):
		return "duplicate"
	case strings.Contains(p, "panic"):
		return "walk-panic"
	default:
		return "inconsistent"
	}
}

// DiffFlat renders the difference between two snapshots.
func DiffFlat(want, got map[string]string) string {
	var l []string
	for p, v := range want {
		if g, ok := got[p]; !ok {
			l = append(l, fmt.Sprintf("missing %s (%s)", p, v))
		} else if g != v {
			l = append(l, fmt.Sprintf("%s: want %s got %s", p, v, g))
		}
	}
	for p, v := range got {
		if _, ok := want[p]; !ok {
			l = append(l, fmt.Sprintf("unexpected %s (%s)", p, v))
		}
	}
	sort.Strings(l)
	if len(l) == 0 {
		return "(no difference)"
	}
	return strings.Join(l, "; ")
}
