package fsx

import (
	"errors"
	"fmt"
	"os"

	"github.com/goatcms/goatcore/filesystem"
)

// ErrInjected is the error every injected failure returns.
var ErrInjected = errors.New("injected-io-failure")

// Injector numbers every call that passes through the FaultFS wrappers sharing it and
// fails the calls whose numbers are in Fail.
type Injector struct {
	N     int          // calls seen so far
	Fail  map[int]bool // call numbers (1-based) to fail
	Short bool         // failing Write calls become short writes (n-1, nil) instead of errors
	Log   []string     // call names in order
	Hits  []string     // the calls that were failed
}

func (in *Injector) tick(name string) bool {
	in.N++
	in.Log = append(in.Log, name)
	if in.Fail[in.N] {
		in.Hits = append(in.Hits, fmt.Sprintf("#%d %s", in.N, name))
		return true
	}
	return false
}

// FaultFS wraps a Filespace; every method call (and every Read/Write/Close of the streams
// it hands out, and every call on child views) is a numbered fault position.
type FaultFS struct {
	Inner filesystem.Filespace
	In    *Injector
	Tag   string
}

func (f *FaultFS) n(m string) string { return f.Tag + "." + m }

func (f *FaultFS) Copy(src, dest string) error {
	if f.In.tick(f.n("Copy")) {
		return ErrInjected
	}
	return f.Inner.Copy(src, dest)
}
func (f *FaultFS) CopyDirectory(src, dest string) error {
	if f.In.tick(f.n("CopyDirectory")) {
		return ErrInjected
	}
	return f.Inner.CopyDirectory(src, dest)
}
func (f *FaultFS) CopyFile(src, dest string) error {
	if f.In.tick(f.n("CopyFile")) {
		return ErrInjected
	}
	return f.Inner.CopyFile(src, dest)
}
func (f *FaultFS) ReadDir(p string) ([]os.FileInfo, error) {
	if f.In.tick(f.n("ReadDir")) {
		return nil, ErrInjected
	}
	return f.Inner.ReadDir(p)
}
func (f *FaultFS) IsExist(p string) bool {
	if f.In.tick(f.n("IsExist")) {
		return false
	}
	return f.Inner.IsExist(p)
}
func (f *FaultFS) IsFile(p string) bool {
	if f.In.tick(f.n("IsFile")) {
		return false
	}
	return f.Inner.IsFile(p)
}
func (f *FaultFS) IsDir(p string) bool {
	if f.In.tick(f.n("IsDir")) {
		return false
	}
	return f.Inner.IsDir(p)
}
func (f *FaultFS) MkdirAll(p string, m os.FileMode) error {
	if f.In.tick(f.n("MkdirAll")) {
		return ErrInjected
	}
	return f.Inner.MkdirAll(p, m)
}
func (f *FaultFS) ReadFile(p string) ([]byte, error) {
	if f.In.tick(f.n("ReadFile")) {
		return nil, ErrInjected
	}
	return f.Inner.ReadFile(p)
}
func (f *FaultFS) WriteFile(p string, d []byte, m os.FileMode) error {
	if f.In.tick(f.n("WriteFile")) {
		return ErrInjected
	}
	return f.Inner.WriteFile(p, d, m)
}
func (f *FaultFS) Filespace(p string) (filesystem.Filespace, error) {
	if f.In.tick(f.n("Filespace")) {
		return nil, ErrInjected
	}
	c, err := f.Inner.Filespace(p)
	if err != nil {
		return nil, err
	}
	return &FaultFS{Inner: c, In: f.In, Tag: f.Tag}, nil
}
func (f *FaultFS) Reader(p string) (filesystem.Reader, error) {
	if f.In.tick(f.n("Reader")) {
		return nil, ErrInjected
	}
	r, err := f.Inner.Reader(p)
	if err != nil {
		return nil, err
	}
	return &faultReader{r, f}, nil
}
func (f *FaultFS) Writer(p string) (filesystem.Writer, error) {
	if f.In.tick(f.n("Writer")) {
		return nil, ErrInjected
	}
	w, err := f.Inner.Writer(p)
	if err != nil {
		return nil, err
	}
	return &faultWriter{w, f}, nil
}
func (f *FaultFS) Remove(p string) error {
	if f.In.tick(f.n("Remove")) {
		return ErrInjected
	}
	return f.Inner.Remove(p)
}
func (f *FaultFS) RemoveAll(p string) error {
	if f.In.tick(f.n("RemoveAll")) {
		return ErrInjected
	}
	return f.Inner.RemoveAll(p)
}
func (f *FaultFS) Lstat(p string) (os.FileInfo, error) {
	if f.In.tick(f.n("Lstat")) {
		return nil, ErrInjected
	}
	return f.Inner.Lstat(p)
}

type faultReader struct {
	r filesystem.Reader
	f *FaultFS
}

func (r *faultReader) Read(p []byte) (int, error) {
	if r.f.In.tick(r.f.n("Read")) {
		return 0, ErrInjected
	}
	return r.r.Read(p)
}
func (r *faultReader) Close() error {
	fail := r.f.In.tick(r.f.n("Reader.Close"))
	err := r.r.Close()
	if fail {
		return ErrInjected
	}
	return err
}

type faultWriter struct {
	w filesystem.Writer
	f *FaultFS
}

func (w *faultWriter) Write(p []byte) (int, error) {
	if w.f.In.tick(w.f.n("Write")) {
		if w.f.In.Short && len(p) > 0 {
			n, err := w.w.Write(p[:len(p)-1])
			return n, err
		}
		return 0, ErrInjected
	}
	return w.w.Write(p)
}
func (w *faultWriter) Close() error {
	fail := w.f.In.tick(w.f.n("Writer.Close"))
	err := w.w.Close()
	if fail {
		return ErrInjected
	}
	return err
}
