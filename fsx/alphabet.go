package fsx

import (
	"strings"

	"verif/models/treefs"
)

// GenOp is an alphabet entry: the operation plus a tag naming its path-spelling class.
type GenOp struct {
	treefs.Op
	Tag string `json:"tag"`
}

// Spelling is a path respelling.
type Spelling struct {
	Tag string
	F   func(p string) string
}

// Spellings of a non-root canonical path p ("a" or "a/b").
var Spellings = []Spelling{
	{"canon", func(p string) string { return p }},
	{"dot-prefix", func(p string) string { return "./" + p }},
	{"trailing-slash", func(p string) string { return p + "/" }},
	{"leading-slash", func(p string) string { return "/" + p }},
	{"double-slash", func(p string) string {
		if strings.Contains(p, "/") {
			return strings.Replace(p, "/", "//", 1)
		}
		return ".//" + p
	}},
	{"inner-dot", func(p string) string {
		if strings.Contains(p, "/") {
			return strings.Replace(p, "/", "/./", 1)
		}
		return p + "/."
	}},
	{"inner-dotdot", func(p string) string { return "b/../" + p }},
	{"trailing-dotdot", func(p string) string { return p + "/b/.." }},
}

// RootSpellings are spellings of the (view) root.
var RootSpellings = []struct{ Tag, P string }{{"root-dot", "."}, {"root-empty", ""}, {"root-slash", "/"}, {"root-dotslash", "./"}, {"root-a-dotdot", "a/.."}}

// EscapeSpellings climb above the root.
var EscapeSpellings = []struct{ Tag, P string }{{"escape-dotdot", ".."}, {"escape-dotdot-a", "../a"}, {"escape-inner", "a/../../b"}}

// Positions are the canonical tree positions of depth <= 2 over names {a,b}.
var Positions = []string{"a", "b", "a/a", "a/b", "b/a", "b/b"}

// Chunkings splits data in the ways the stream alphabet uses.
func Chunkings(data string) [][]string {
	out := [][]string{{data}}
	if len(data) >= 2 {
		out = append(out, []string{data[:1], data[1:]})
	} else {
		out = append(out, []string{"", data})
	}
	out = append(out, []string{data, ""})
	return out
}

// Alphabet builds the operation alphabet.
//
//	contents: byte contents for writes; nspell: how many spellings (prefix of Spellings);
//	views: view chains to issue every op through; escapes: include escaping spellings.
func Alphabet(contents []string, nspell int, views [][]string, escapes bool, readBufs []int) []GenOp {
	var ops []GenOp
	type pp struct{ tag, p string }
	var paths []pp
	for _, pos := range Positions {
		for i := 0; i < nspell && i < len(Spellings); i++ {
			paths = append(paths, pp{Spellings[i].Tag, Spellings[i].F(pos)})
		}
	}
	for _, r := range RootSpellings {
		paths = append(paths, pp{r.Tag, r.P})
	}
	if escapes {
		for _, r := range EscapeSpellings {
			paths = append(paths, pp{r.Tag, r.P})
		}
	}
	vtag := func(v []string) string {
		if len(v) == 0 {
			return ""
		}
		return "@view(" + strings.Join(v, ",") + ")"
	}
	for _, v := range views {
		for _, p := range paths {
			// deep views only get short paths, to keep the reachable depth bounded
			if len(v) > 0 && strings.Count(strings.Trim(p.p, "./"), "/") > 0 && len(v) > 1 {
				continue
			}
			tag := p.tag + vtag(v)
			add := func(o treefs.Op) {
				o.View = v
				ops = append(ops, GenOp{o, tag})
			}
			for _, k := range []string{"ReadDir", "IsExist", "IsFile", "IsDir", "Lstat", "ReadFile", "MkdirAll", "Remove", "RemoveAll"} {
				add(treefs.Op{Kind: k, P: p.p})
			}
			for _, b := range readBufs {
				add(treefs.Op{Kind: "Reader", P: p.p, Buf: b})
			}
			add(treefs.Op{Kind: "Reader", P: p.p, Via: "copy"})
			add(treefs.Op{Kind: "Reader", P: p.p, Buf: 1, Via: "head+copy"})
			// degenerate streams: opened and closed without a write, one empty write, and the
			// optional fast paths of a writer (ReadFrom through io.Copy, WriteString)
			last := contents[len(contents)-1]
			add(treefs.Op{Kind: "Writer", P: p.p})
			add(treefs.Op{Kind: "Writer", P: p.p, Chunks: []string{""}})
			add(treefs.Op{Kind: "Writer", P: p.p, Via: "copy"})
			add(treefs.Op{Kind: "Writer", P: p.p, Chunks: []string{last}, Via: "copy"})
			add(treefs.Op{Kind: "Writer", P: p.p, Chunks: []string{last}, Via: "string"})
			add(treefs.Op{Kind: "Writer", P: p.p, Chunks: []string{"h", "b", last, "t"}, Via: "mixed"})
			for ci, c := range contents {
				add(treefs.Op{Kind: "WriteFile", P: p.p, Data: c})
				if ci == len(contents)-1 {
					for _, ch := range Chunkings(c) {
						add(treefs.Op{Kind: "Writer", P: p.p, Chunks: ch})
					}
				} else {
					add(treefs.Op{Kind: "Writer", P: p.p, Chunks: []string{c}})
				}
			}
		}
		// copies: canonical sources x destinations, plus a few respelled / escaping arguments
		var srcs, dsts []pp
		for _, pos := range Positions {
			srcs = append(srcs, pp{"canon", pos})
			dsts = append(dsts, pp{"canon", pos})
		}
		srcs = append(srcs, pp{"dot-prefix", "./a"}, pp{"trailing-slash", "a/"}, pp{"root-dot", "."})
		dsts = append(dsts, pp{"dot-prefix", "./b"}, pp{"trailing-slash", "b/"}, pp{"root-dot", "."}, pp{"leading-slash", "/b/b"},
			// a destination whose NAME continues the source's name (a -> ab, a/a -> a/ab): next to it, not below it
			pp{"name-continues-source", "ab"}, pp{"name-continues-source-deep", "a/ab"})
		if escapes {
			srcs = append(srcs, pp{"escape-dotdot-a", "../a"})
			dsts = append(dsts, pp{"escape-dotdot-a", "../b"}, pp{"escape-dotdot", ".."})
		}
		for _, k := range []string{"CopyFile", "CopyDirectory", "Copy"} {
			for _, s := range srcs {
				for _, d := range dsts {
					if len(v) > 1 && (strings.Contains(s.p, "/") && s.tag == "canon" || strings.Contains(d.p, "/") && d.tag == "canon") {
						continue
					}
					o := treefs.Op{Kind: k, P: s.p, Q: d.p, View: v}
					ops = append(ops, GenOp{o, "src-" + s.tag + ",dst-" + d.tag + vtag(v)})
				}
			}
		}
	}
	return ops
}

// EscapingViewOps: operations issued through view chains whose LAST Filespace() argument climbs above
// the view it is asked of (a child view asked for "..", "../b", "b/../..", a grandchild for "../.."):
// creating such a view must fail, whatever is then done through it.
func EscapingViewOps(contents []string) []GenOp {
	var ops []GenOp
	last := contents[len(contents)-1]
	for _, v := range [][]string{{".."}, {"a", ".."}, {"a", "../b"}, {"a", "b/../.."}, {"a", "b", "../.."}, {"a", "b", "../../b"}, {"./a/", "/../"}} {
		tag := "escaping-view@view(" + strings.Join(v, ",") + ")"
		for _, p := range []string{".", "a", "b", "a/a"} {
			for _, k := range []string{"ReadDir", "Lstat", "ReadFile", "MkdirAll", "Remove", "RemoveAll"} {
				ops = append(ops, GenOp{treefs.Op{Kind: k, P: p, View: v}, tag})
			}
			ops = append(ops, GenOp{treefs.Op{Kind: "Reader", P: p, Buf: 64, View: v}, tag},
				GenOp{treefs.Op{Kind: "WriteFile", P: p, Data: last, View: v}, tag},
				GenOp{treefs.Op{Kind: "Writer", P: p, Chunks: []string{last}, View: v}, tag},
				GenOp{treefs.Op{Kind: "Copy", P: p, Q: "b/b", View: v}, tag},
				GenOp{treefs.Op{Kind: "CopyFile", P: "a", Q: p, View: v}, tag})
		}
	}
	return ops
}

// Depth returns the depth of the deepest node of a model tree.
func Depth(t *treefs.Node) int {
	d := 0
	for _, k := range t.Kids {
		kd := 1
		if k.Dir {
			kd = 1 + Depth(k)
		}
		if kd > d {
			d = kd
		}
	}
	return d
}

// NodeCount counts nodes below t.
func NodeCount(t *treefs.Node) int {
	n := 0
	for _, k := range t.Kids {
		n++
		if k.Dir {
			n += NodeCount(k)
		}
	}
	return n
}
