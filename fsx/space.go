package fsx

import (
	"fmt"
	"strings"

	"github.com/goatcms/goatcore/filesystem"
	"github.com/goatcms/goatcore/zzverif/vsched"

	"verif/models/treefs"
)

// State is one canonical model tree with the histories that reach it.
type State struct {
	Tree  *treefs.Node
	Key   string
	Hists [][]treefs.Op // Hists[0] is a shortest history; others end in different op kinds
}

// Mutators returns the canonical-spelling mutating ops used to span the state space.
func Mutators(contents []string) []treefs.Op {
	var ops []treefs.Op
	for _, p := range Positions {
		for _, c := range contents {
			ops = append(ops, treefs.Op{Kind: "WriteFile", P: p, Data: c})
		}
		ops = append(ops, treefs.Op{Kind: "MkdirAll", P: p}, treefs.Op{Kind: "Remove", P: p}, treefs.Op{Kind: "RemoveAll", P: p})
		if len(contents) > 0 {
			ops = append(ops, treefs.Op{Kind: "Writer", P: p, Chunks: []string{contents[0]}})
		}
	}
	for _, s := range Positions {
		for _, d := range Positions {
			if s != d {
				ops = append(ops, treefs.Op{Kind: "Copy", P: s, Q: d})
			}
		}
	}
	return ops
}

// Reach enumerates every model state reachable from the empty tree through MUST-OK mutators
// while staying within maxDepth, breadth first (so Hists[0] is shortest).
func Reach(muts []treefs.Op, maxDepth, maxHists int) []*State {
	root := treefs.NewDir()
	s0 := &State{Tree: root, Key: root.Key(), Hists: [][]treefs.Op{{}}}
	idx := map[string]*State{s0.Key: s0}
	order := []*State{s0}
	for qi := 0; qi < len(order); qi++ {
		s := order[qi]
		for _, m := range muts {
			e := treefs.Apply(s.Tree, m)
			if e.Class != treefs.MustOK || e.After == nil {
				continue
			}
			if Depth(e.After) > maxDepth {
				continue
			}
			k := e.After.Key()
			h := append(append([]treefs.Op{}, s.Hists[0]...), m)
			if old, ok := idx[k]; ok {
				if len(old.Hists) < maxHists {
					dupKind := false
					for _, oh := range old.Hists {
						if len(oh) > 0 && oh[len(oh)-1].Kind == m.Kind {
							dupKind = true
						}
					}
					if !dupKind && k != s.Key {
						old.Hists = append(old.Hists, h)
					}
				}
				continue
			}
			ns := &State{Tree: e.After, Key: k, Hists: [][]treefs.Op{h}}
			idx[k] = ns
			order = append(order, ns)
		}
	}
	return order
}

// StepOutcome is what one checked transition produced.
type StepOutcome struct {
	R        Result
	After    map[string]string
	Problems []string
	Pre      map[string]string
	PreProbs []string
	Deadlock bool
	Blocked  []string
	Panic    string
	Steps    int
}

type zeroChooser struct{}

func (zeroChooser) Choose(kind, n int, runEn bool) int { return 0 }

// RunSeq runs body as a single controlled execution with default choices (sequential
// checks use the scheduler only to make deadlocks and leaked locks visible).
func RunSeq(body func()) *vsched.Result {
	return vsched.Run(vsched.Config{Chooser: zeroChooser{}, MaxSteps: 2000000}, body)
}

// Step replays hist on a fresh filespace, optionally walks it, executes op and walks again.
func Step(mk func() (filesystem.Filespace, func()), hist []treefs.Op, op treefs.Op, walkPre bool) StepOutcome {
	var o StepOutcome
	res := RunSeq(func() {
		fs, done := mk()
		if done != nil {
			defer done()
		}
		for _, h := range hist {
			Exec(fs, h)
		}
		if walkPre {
			o.Pre, o.PreProbs = Walk(fs)
		}
		o.R = Exec(fs, op)
		o.After, o.Problems = Walk(fs)
	})
	o.Steps = res.Steps
	if res.Deadlock || res.Horizon {
		o.Deadlock = true
		o.Blocked = res.Blocked
	}
	if len(res.Panics) > 0 {
		o.Panic = res.Panics[0].Value + "\n" + res.Panics[0].Stack
	}
	return o
}

// OpString renders an op compactly.
func OpString(op treefs.Op) string {
	var b strings.Builder
	if len(op.View) > 0 {
		fmt.Fprintf(&b, "view%q.", op.View)
	}
	switch op.Kind {
	case "WriteFile":
		fmt.Fprintf(&b, "WriteFile(%q,%q)", op.P, op.Data)
	case "Writer":
		fmt.Fprintf(&b, "Writer(%q)+%q%s+Close", op.P, op.Chunks, map[string]string{"": "", "copy": " via io.Copy", "string": " via io.WriteString", "mixed": " via Write / io.WriteString / io.Copy in turn"}[op.Via])
	case "Reader":
		fmt.Fprintf(&b, "Reader(%q,buf=%d%s)", op.P, op.Buf, map[string]string{"": "", "copy": ", drained via io.Copy", "head+copy": ", header via Read then io.Copy"}[op.Via])
	case "CopyFile", "CopyDirectory", "Copy":
		fmt.Fprintf(&b, "%s(%q,%q)", op.Kind, op.P, op.Q)
	default:
		fmt.Fprintf(&b, "%s(%q)", op.Kind, op.P)
	}
	return b.String()
}

// HistString renders a history.
func HistString(h []treefs.Op) string {
	var l []string
	for _, o := range h {
		l = append(l, OpString(o))
	}
	return "[" + strings.Join(l, "; ") + "]"
}
