//go:build go1.21

// Package vsched is the controlled runtime that goatcore is instrumented against
// (overlaid into the goatcore module as github.com/goatcms/goatcore/zzverif/vsched).
//
// When no execution is active every primitive delegates to the real runtime, so an
// instrumented binary behaves exactly like an uninstrumented one outside vsched.Run.
// Inside vsched.Run exactly one controlled goroutine runs at a time; every
// synchronisation operation is a scheduling point whose outcome (which enabled thread
// continues) is decided by a Chooser - the explorer.
package vsched

import (
	"fmt"
	"runtime"
	"runtime/debug"
	"sort"
	"strings"
)

// Chooser owns every nondeterministic decision of one execution.
type Chooser interface {
	// Choose returns an index in [0,n). kind is one of KindThread, KindSelect, KindEnv, KindMap.
	// For KindThread, runningEnabled tells whether option 0 is "the running thread continues".
	Choose(kind int, n int, runningEnabled bool) int
}

const (
	KindThread = iota
	KindSelect
	KindEnv
	KindMap
)

// Config of one execution.
type Config struct {
	Chooser    Chooser
	MaxSteps   int      // horizon; 0 = 20000
	Focus      []string // package-path fragments whose sync objects are preemptive; empty = all
	Race       bool     // run the happens-before race oracle
	MapPerm    bool     // map iteration order is a Chooser decision (n<=3: all permutations, else rotations)
	SelectCost bool
}

// Step is one executed scheduling point (for replay validation and evidence).
type Step struct {
	Thread int
	Op     string
	Obj    int
	Aux    bool // operation on an object outside the check's focus set
}

// PanicInfo describes a panic that escaped a controlled thread.
type PanicInfo struct {
	Thread int
	Value  string
	Stack  string
}

// RaceInfo describes two conflicting accesses unordered by happens-before.
type RaceInfo struct {
	Loc    string
	Kind   string // "write-write", "read-write", "write-read"
	First  string
	Second string
}

// Result of one execution.
type Result struct {
	Steps         int
	Trace         []Step
	Deadlock      bool // quiescent with unfinished non-daemon threads
	Blocked       []string
	BlockedStacks []string // where the unfinished harness threads were blocked (deadlocks only)
	Horizon       bool     // MaxSteps reached (livelock suspicion)
	Panics        []PanicInfo
	Races         []RaceInfo
	Threads       int
	TraceHash     uint64 // happens-before-insensitive hash is computed by the explorer; this is the plain order hash
	InfraError    string
}

type opKind int

type pendingOp struct {
	name    string
	obj     int
	enabled func() bool
	nopre   bool // object outside the focus set: never a preemption point
}

type thread struct {
	id        int
	wake      chan struct{}
	pend      *pendingOp
	dead      bool
	daemon    bool
	started   bool
	exited    chan struct{}
	yieldWait map[int]bool
	vc        vclock
	name      string
}

// Exec is one controlled execution.
type Exec struct {
	cfg        Config
	threads    []*thread
	cur        *thread
	steps      int
	maxSteps   int
	trace      []Step
	finished   chan struct{}
	aborting   bool
	res        Result
	objIDs     map[interface{}]int
	chanPins   map[uintptr]interface{}
	atomicVC   vclock
	sysVC      vclock
	epoch      uint64
	chans      map[uintptr]*chanState
	race       *raceState
	focusCache map[uintptr]bool
	enBuf      []*thread
	candBuf    []*thread
}

var cx *Exec
var epochCounter uint64

// Active reports whether a controlled execution is running.
func Active() bool { return cx != nil }

// Run executes body as thread 0 of a controlled execution and returns at quiescence.
func Run(cfg Config, body func()) *Result {
	if cx != nil {
		panic("vsched: nested Run")
	}
	epochCounter++
	x := &Exec{
		cfg:        cfg,
		maxSteps:   cfg.MaxSteps,
		finished:   make(chan struct{}),
		objIDs:     map[interface{}]int{},
		chanPins:   map[uintptr]interface{}{},
		epoch:      epochCounter,
		chans:      map[uintptr]*chanState{},
		focusCache: map[uintptr]bool{},
	}
	if x.maxSteps == 0 {
		x.maxSteps = 20000
	}
	if cfg.Race {
		x.race = newRaceState()
	}
	cx = x
	t0 := x.newThread()
	x.cur = t0
	t0.started = true
	go x.threadMain(t0, body)
	t0.wake <- struct{}{}
	<-x.finished
	// abort every remaining parked thread, one at a time
	x.aborting = true
	for i := 0; i < len(x.threads); i++ { // threads may not grow during abort (Go is a no-op)
		t := x.threads[i]
		if t.dead {
			continue
		}
		if !t.daemon && !x.res.Horizon {
			x.res.Deadlock = true
		}
		tag := ""
		if t.daemon {
			tag = "(internal)"
		}
		if t.pend != nil {
			x.res.Blocked = append(x.res.Blocked, fmt.Sprintf("T%d%s:%s#%d", t.id, tag, t.pend.name, t.pend.obj))
		} else {
			x.res.Blocked = append(x.res.Blocked, fmt.Sprintf("T%d%s:?", t.id, tag))
		}
		x.cur = t
		t.wake <- struct{}{}
		<-t.exited
	}
	cx = nil
	x.res.Steps = x.steps
	x.res.Trace = x.trace
	x.res.Threads = len(x.threads)
	if x.race != nil {
		x.res.Races = x.race.races
	}
	return &x.res
}

func (x *Exec) newThread() *thread {
	t := &thread{id: len(x.threads), wake: make(chan struct{}, 1), exited: make(chan struct{})}
	t.vc = newVC(t.id)
	x.threads = append(x.threads, t)
	return t
}

type abortSignal struct{}

func (x *Exec) threadMain(t *thread, body func()) {
	<-t.wake
	normal := false
	defer func() {
		r := recover()
		if x.aborting {
			t.dead = true
			close(t.exited)
			return
		}
		if r != nil {
			x.res.Panics = append(x.res.Panics, PanicInfo{Thread: t.id, Value: fmt.Sprint(r), Stack: trimStack(string(debug.Stack()))})
		} else if !normal {
			// runtime.Goexit called by user code: treat as normal exit
		}
		t.dead = true
		t.pend = nil
		close(t.exited)
		x.handoff(t)
	}()
	if x.aborting {
		return
	}
	body()
	normal = true
}

func trimStack(s string) string {
	lines := strings.Split(s, "\n")
	var out []string
	for i := 0; i < len(lines); i++ {
		l := lines[i]
		if strings.Contains(l, "goatcms/goatcore") || strings.Contains(l, "verif/") {
			out = append(out, strings.TrimSpace(l))
		}
		if len(out) > 24 {
			break
		}
	}
	return strings.Join(out, "\n")
}

// handoff is called by a thread that is ending: choose a successor or finish.
func (x *Exec) handoff(t *thread) {
	next := x.pick(nil)
	if next == nil {
		close(x.finished)
		return
	}
	x.resume(next)
}

func (x *Exec) resume(t *thread) {
	x.cur = t
	t.wake <- struct{}{}
}

func (x *Exec) threadEnabled(t *thread) bool {
	if t.dead || t.pend == nil {
		return false
	}
	if !t.started {
		return true
	}
	return t.pend.enabled == nil || t.pend.enabled()
}

// pick decides which thread runs next. self is the calling thread (nil when it is ending).
func (x *Exec) pick(self *thread) *thread {
	if x.steps >= x.maxSteps {
		x.res.Horizon = true
		return nil
	}
	// raw enabledness
	en := x.enBuf[:0]
	yielders := false
	for _, t := range x.threads {
		if x.threadEnabled(t) {
			en = append(en, t)
			if len(t.yieldWait) > 0 {
				yielders = true
			}
		}
	}
	x.enBuf = en
	cand := en
	if yielders {
		// fair yield: a yielder waits for every thread that was enabled when it yielded
		// to take a step or become disabled.
		enSet := map[int]bool{}
		for _, t := range en {
			enSet[t.id] = true
		}
		cand = x.candBuf[:0]
		for _, t := range en {
			if len(t.yieldWait) > 0 {
				for id := range t.yieldWait {
					if !enSet[id] {
						delete(t.yieldWait, id)
					}
				}
			}
			if len(t.yieldWait) == 0 {
				cand = append(cand, t)
			}
		}
		x.candBuf = cand
		if len(cand) == 0 && len(en) > 0 {
			// all enabled threads are yielders waiting on each other: release them all
			for _, t := range en {
				t.yieldWait = nil
			}
			cand = en
		}
	}
	if len(cand) == 0 {
		return nil
	}
	// canonical order: running thread first, then ascending ids
	runningEnabled := false
	if self != nil {
		for i, t := range cand {
			if t == self {
				runningEnabled = true
				copy(cand[1:i+1], cand[0:i])
				cand[0] = self
				break
			}
		}
	}
	var chosen *thread
	if len(cand) == 1 {
		chosen = cand[0]
	} else if runningEnabled && self.pend.nopre {
		chosen = self
	} else {
		i := x.cfg.Chooser.Choose(KindThread, len(cand), runningEnabled)
		if i < 0 || i >= len(cand) {
			x.res.InfraError = fmt.Sprintf("chooser returned %d of %d", i, len(cand))
			return nil
		}
		chosen = cand[i]
	}
	// the chosen thread takes a step
	x.steps++
	for _, t := range x.threads {
		if t != chosen && t.yieldWait != nil {
			delete(t.yieldWait, chosen.id)
		}
	}
	if chosen.pend != nil {
		x.trace = append(x.trace, Step{chosen.id, chosen.pend.name, chosen.pend.obj, chosen.pend.nopre})
	}
	return chosen
}

// point is a scheduling point of the running thread.
func (x *Exec) point(op *pendingOp) {
	t := x.cur
	t.pend = op
	next := x.pick(t)
	if next == nil {
		// quiescence while this thread is blocked (or horizon / infra error)
		close(x.finished)
		<-t.wake
		x.exitAborted()
	}
	if next != t {
		x.resume(next)
		<-t.wake
		if x.aborting {
			x.exitAborted()
		}
	}
	t.pend = nil
}

func (x *Exec) exitAborted() {
	if t := x.cur; t != nil && !t.daemon && x.res.Deadlock && len(x.res.BlockedStacks) < 4 {
		x.res.BlockedStacks = append(x.res.BlockedStacks, fmt.Sprintf("T%d blocked at:\n%s", t.id, trimStack(string(debug.Stack()))))
	}
	runtime.Goexit()
}

func (x *Exec) objID(p interface{}) int {
	if id, ok := x.objIDs[p]; ok {
		return id
	}
	id := len(x.objIDs) + 1
	x.objIDs[p] = id
	return id
}

// nopre decides (once per object) whether ops on an object created/used from this call
// site are preemptive. skip = frames above the shim method.
func (x *Exec) nopreFor(skip int) bool {
	if len(x.cfg.Focus) == 0 {
		return false
	}
	pc, _, _, ok := runtime.Caller(skip)
	if !ok {
		return false
	}
	if v, ok := x.focusCache[pc]; ok {
		return v
	}
	fn := runtime.FuncForPC(pc)
	name := ""
	if fn != nil {
		name = fn.Name()
	}
	nopre := true
	for _, f := range x.cfg.Focus {
		if strings.Contains(name, f) {
			nopre = false
			break
		}
	}
	x.focusCache[pc] = nopre
	return nopre
}

// ---- public primitives ----

// Go is the instrumented `go` statement of goatcore: it spawns a controlled thread that is
// allowed to stay blocked at quiescence (a plain goroutine when inactive).
func Go(fn func()) { spawn(fn, true) }

// Spawn starts a harness thread: it must have finished at quiescence, otherwise the
// execution counts as a deadlock.
func Spawn(fn func()) { spawn(fn, false) }

func spawn(fn func(), daemon bool) {
	x := cx
	if x == nil {
		go fn()
		return
	}
	if x.aborting {
		return
	}
	parent := x.cur
	t := x.newThread()
	t.daemon = daemon
	t.pend = &pendingOp{name: "start", obj: 0}
	if x.race != nil {
		t.vc.join(parent.vc)
		parent.vc.tick(parent.id)
	}
	go x.threadMain(t, func() {
		t.started = true
		t.pend = nil
		fn()
	})
	x.point(&pendingOp{name: "go", obj: 0, nopre: x.nopreFor(3)})
}

// MarkDaemon marks the calling thread as allowed to stay blocked at quiescence.
func MarkDaemon() {
	if x := cx; x != nil && !x.aborting {
		x.cur.daemon = true
	}
}

// Yield is the instrumented runtime.Gosched.
func Yield() {
	x := cx
	if x == nil {
		runtime.Gosched()
		return
	}
	if x.aborting {
		x.exitAborted()
	}
	t := x.cur
	w := map[int]bool{}
	for _, o := range x.threads {
		if o != t && x.threadEnabled(o) {
			w[o.id] = true
		}
	}
	t.yieldWait = w
	x.point(&pendingOp{name: "yield", obj: 0})
}

// Point is an explicit, always enabled scheduling point for harness code.
func Point(label string) {
	x := cx
	if x == nil || x.aborting {
		return
	}
	x.point(&pendingOp{name: label, obj: 0})
}

// Choose asks the explorer for an environment answer in [0,n).
func Choose(n int) int {
	x := cx
	if x == nil || x.aborting || n <= 1 {
		return 0
	}
	i := x.cfg.Chooser.Choose(KindEnv, n, false)
	if i < 0 || i >= n {
		i = 0
	}
	return i
}

// Note records a harness observation in the schedule trace as an access to one shared
// "harness" object, so that two executions that differ in the order of observations are never
// treated as equivalent by the explorer's happens-before cache. It is not a scheduling point.
func Note(label string) {
	x := cx
	if x == nil || x.aborting || x.cur == nil {
		return
	}
	x.trace = append(x.trace, Step{x.cur.id, "note:" + label, -1, false})
}

// TraceLen returns the number of trace steps recorded so far in the running execution.
func TraceLen() int {
	if x := cx; x != nil {
		return len(x.trace)
	}
	return 0
}

// ThreadID returns the running controlled thread's id (or -1).
func ThreadID() int {
	if x := cx; x != nil && x.cur != nil {
		return x.cur.id
	}
	return -1
}

// StepCount returns the global step counter of the running execution.
func StepCount() int {
	if x := cx; x != nil {
		return x.steps
	}
	return 0
}

// Aborting is true while an execution is being torn down.
func Aborting() bool {
	x := cx
	return x != nil && x.aborting
}

// MapKeys returns the keys of m in a canonical (sorted) order, or - when Config.MapPerm
// is set - in an order chosen by the explorer.
func MapKeys[M ~map[K]V, K comparable, V any](m M) []K {
	keys := make([]K, 0, len(m))
	for k := range m {
		keys = append(keys, k)
	}
	if len(keys) < 2 {
		return keys
	}
	strs := make([]string, len(keys))
	allStr := true
	for i, k := range keys {
		switch v := any(k).(type) {
		case string:
			strs[i] = v
		default:
			allStr = false
			strs[i] = fmt.Sprintf("%T:%v", k, k)
		}
	}
	_ = allStr
	idx := make([]int, len(keys))
	for i := range idx {
		idx[i] = i
	}
	sort.SliceStable(idx, func(a, b int) bool { return strs[idx[a]] < strs[idx[b]] })
	out := make([]K, len(keys))
	for i, j := range idx {
		out[i] = keys[j]
	}
	x := cx
	if x != nil && !x.aborting && x.cfg.MapPerm {
		n := len(out)
		if n <= 3 {
			perms := permutations(n)
			c := x.cfg.Chooser.Choose(KindMap, len(perms), false)
			p := perms[c]
			o2 := make([]K, n)
			for i, j := range p {
				o2[i] = out[j]
			}
			out = o2
		} else {
			c := x.cfg.Chooser.Choose(KindMap, n, false)
			out = append(out[c:], out[:c]...)
		}
	}
	return out
}

func permutations(n int) [][]int {
	if n == 2 {
		return [][]int{{0, 1}, {1, 0}}
	}
	return [][]int{{0, 1, 2}, {0, 2, 1}, {1, 0, 2}, {1, 2, 0}, {2, 0, 1}, {2, 1, 0}}
}

// MapIt iterates a map in the order given by MapKeys (instrumented `range m`).
type MapIt[K comparable, V any] struct {
	m    map[K]V
	keys []K
	i    int
	K    K
	V    V
}

// MapIter starts an instrumented range over m.
func MapIter[M ~map[K]V, K comparable, V any](m M, site string) *MapIt[K, V] {
	if x := cx; x != nil && x.race != nil && !x.aborting && m != nil {
		MR(m, site)
	}
	return &MapIt[K, V]{m: m, keys: MapKeys(m)}
}

// Next advances to the next key that is still present.
func (it *MapIt[K, V]) Next() bool {
	for it.i < len(it.keys) {
		k := it.keys[it.i]
		it.i++
		if v, ok := it.m[k]; ok {
			it.K, it.V = k, v
			return true
		}
	}
	return false
}

// ElidedStack replaces runtime/debug.Stack inside goatcore's error constructor (see instr).
func ElidedStack() []byte { return []byte("(stack trace elided by the verification build)\n") }
