//go:build go1.21

package vsched

import (
	"sync"
)

// Aliases for the parts of package sync that need no modelling.
type (
	Map    = sync.Map
	Locker = sync.Locker
)

// PoolKeepsNothing selects the environment's answer for pooled state: sync.Pool may drop its items at
// any time (every GC cycle does), so "Get always calls New" is as legal as "Get returns what was Put".
// Checks run both.
var PoolKeepsNothing bool

// Pool models sync.Pool with a plain LIFO list (or no retention at all, see PoolKeepsNothing).
type Pool struct {
	New   func() interface{}
	mu    sync.Mutex
	items []interface{}
}

// Get returns a pooled item or a new one.
func (p *Pool) Get() interface{} {
	p.mu.Lock()
	if n := len(p.items); n > 0 && !PoolKeepsNothing {
		v := p.items[n-1]
		p.items = p.items[:n-1]
		p.mu.Unlock()
		return v
	}
	p.items = nil
	p.mu.Unlock()
	if p.New != nil {
		return p.New()
	}
	return nil
}

// Put hands an item back.
func (p *Pool) Put(v interface{}) {
	if v == nil || PoolKeepsNothing {
		return
	}
	p.mu.Lock()
	p.items = append(p.items, v)
	p.mu.Unlock()
}

// Mutex is the instrumented sync.Mutex.
type Mutex struct {
	real   sync.Mutex
	epoch  uint64
	locked bool
	nopre  int8 // 0 unknown, 1 preemptive, 2 not
	vc     vclock
}

func (m *Mutex) sync(x *Exec) {
	if m.epoch != x.epoch {
		m.epoch = x.epoch
		m.locked = false
		m.nopre = 0
		m.vc = nil
	}
}

func nopreOf(x *Exec, cache *int8, skip int) bool {
	if *cache == 0 {
		if x.nopreFor(skip + 1) {
			*cache = 2
		} else {
			*cache = 1
		}
	}
	return *cache == 2
}

// Lock locks m.
func (m *Mutex) Lock() {
	x := cx
	if x == nil {
		m.real.Lock()
		return
	}
	if x.aborting {
		return
	}
	m.sync(x)
	x.point(&pendingOp{name: "lock", obj: x.objID(m), enabled: func() bool { return !m.locked }, nopre: nopreOf(x, &m.nopre, 2)})
	m.locked = true
	if x.race != nil {
		x.cur.vc.join(m.vc)
	}
}

// Unlock unlocks m.
func (m *Mutex) Unlock() {
	x := cx
	if x == nil {
		m.real.Unlock()
		return
	}
	if x.aborting {
		return
	}
	m.sync(x)
	if !m.locked {
		panic("sync: unlock of unlocked mutex")
	}
	m.locked = false
	if x.race != nil {
		m.vc = x.cur.vc.clone()
		x.cur.vc.tick(x.cur.id)
	}
}

// RWMutex is the instrumented sync.RWMutex (writer preference modelled: an announced
// writer blocks later readers).
type RWMutex struct {
	real    sync.RWMutex
	epoch   uint64
	wmu     bool // a writer has announced (holds the inner writer mutex) or is active
	wactive bool
	readers int
	nopre   int8
	vcW     vclock // released by writers
	vcR     vclock // released by readers
}

func (m *RWMutex) sync(x *Exec) {
	if m.epoch != x.epoch {
		m.epoch = x.epoch
		m.wmu, m.wactive, m.readers, m.nopre = false, false, 0, 0
		m.vcW, m.vcR = nil, nil
	}
}

// Lock takes the write lock.
func (m *RWMutex) Lock() {
	x := cx
	if x == nil {
		m.real.Lock()
		return
	}
	if x.aborting {
		return
	}
	m.sync(x)
	np := nopreOf(x, &m.nopre, 2)
	id := x.objID(m)
	x.point(&pendingOp{name: "wlock", obj: id, enabled: func() bool { return !m.wmu }, nopre: np})
	m.wmu = true
	if m.readers != 0 {
		x.point(&pendingOp{name: "wlock2", obj: id, enabled: func() bool { return m.readers == 0 }, nopre: np})
	}
	m.wactive = true
	if x.race != nil {
		x.cur.vc.join(m.vcW)
		x.cur.vc.join(m.vcR)
	}
}

// Unlock releases the write lock.
func (m *RWMutex) Unlock() {
	x := cx
	if x == nil {
		m.real.Unlock()
		return
	}
	if x.aborting {
		return
	}
	m.sync(x)
	if !m.wactive {
		panic("sync: Unlock of unlocked RWMutex")
	}
	m.wactive = false
	m.wmu = false
	if x.race != nil {
		m.vcW = x.cur.vc.clone()
		x.cur.vc.tick(x.cur.id)
	}
}

// RLock takes a read lock.
func (m *RWMutex) RLock() {
	x := cx
	if x == nil {
		m.real.RLock()
		return
	}
	if x.aborting {
		return
	}
	m.sync(x)
	x.point(&pendingOp{name: "rlock", obj: x.objID(m), enabled: func() bool { return !m.wmu }, nopre: nopreOf(x, &m.nopre, 2)})
	m.readers++
	if x.race != nil {
		x.cur.vc.join(m.vcW)
	}
}

// RUnlock releases a read lock.
func (m *RWMutex) RUnlock() {
	x := cx
	if x == nil {
		m.real.RUnlock()
		return
	}
	if x.aborting {
		return
	}
	m.sync(x)
	if m.readers <= 0 {
		panic("sync: RUnlock of unlocked RWMutex")
	}
	m.readers--
	if x.race != nil {
		if m.vcR == nil {
			m.vcR = x.cur.vc.clone()
		} else {
			m.vcR.join(x.cur.vc)
		}
		x.cur.vc.tick(x.cur.id)
	}
}

// RLocker returns a Locker for the read side.
func (m *RWMutex) RLocker() sync.Locker { return (*rlocker)(m) }

type rlocker RWMutex

func (r *rlocker) Lock()   { (*RWMutex)(r).RLock() }
func (r *rlocker) Unlock() { (*RWMutex)(r).RUnlock() }

// WaitGroup is the instrumented sync.WaitGroup.
type WaitGroup struct {
	real  sync.WaitGroup
	epoch uint64
	n     int
	nopre int8
	vc    vclock
}

func (w *WaitGroup) sync(x *Exec) {
	if w.epoch != x.epoch {
		w.epoch = x.epoch
		w.n = 0
		w.nopre = 0
		w.vc = nil
	}
}

// Add adds delta to the counter.
func (w *WaitGroup) Add(delta int) {
	x := cx
	if x == nil {
		w.real.Add(delta)
		return
	}
	if x.aborting {
		return
	}
	w.sync(x)
	if delta > 0 {
		x.point(&pendingOp{name: "wgadd", obj: x.objID(w), nopre: nopreOf(x, &w.nopre, 2)})
	}
	w.n += delta
	if x.race != nil && delta < 0 {
		if w.vc == nil {
			w.vc = x.cur.vc.clone()
		} else {
			w.vc.join(x.cur.vc)
		}
		x.cur.vc.tick(x.cur.id)
	}
	if w.n < 0 {
		w.n = 0
		panic("sync: negative WaitGroup counter")
	}
}

// Done decrements the counter.
func (w *WaitGroup) Done() {
	x := cx
	if x == nil {
		w.real.Done()
		return
	}
	if x.aborting {
		return
	}
	w.sync(x)
	nopreOf(x, &w.nopre, 2)
	w.Add(-1)
}

// Wait blocks until the counter is zero.
func (w *WaitGroup) Wait() {
	x := cx
	if x == nil {
		w.real.Wait()
		return
	}
	if x.aborting {
		return
	}
	w.sync(x)
	x.point(&pendingOp{name: "wgwait", obj: x.objID(w), enabled: func() bool { return w.n == 0 }, nopre: nopreOf(x, &w.nopre, 2)})
	if x.race != nil {
		x.cur.vc.join(w.vc)
	}
}

// Once is the instrumented sync.Once.
type Once struct {
	real  sync.Once
	epoch uint64
	done  bool
	m     Mutex
}

// Do calls f once.
func (o *Once) Do(f func()) {
	x := cx
	if x == nil {
		o.real.Do(f)
		return
	}
	if x.aborting {
		return
	}
	if o.epoch != x.epoch {
		o.epoch = x.epoch
		o.done = false
	}
	o.m.Lock()
	defer o.m.Unlock()
	if !o.done {
		defer func() { o.done = true }()
		f()
	}
}

// TryLock tries to lock m without blocking (a scheduling point, then one attempt).
func (m *Mutex) TryLock() bool {
	x := cx
	if x == nil {
		return m.real.TryLock()
	}
	if x.aborting {
		return false
	}
	m.sync(x)
	x.point(&pendingOp{name: "trylock", obj: x.objID(m), nopre: nopreOf(x, &m.nopre, 2)})
	if m.locked {
		return false
	}
	m.locked = true
	if x.race != nil {
		x.cur.vc.join(m.vc)
	}
	return true
}

// TryLock tries to take the write lock without blocking.
func (m *RWMutex) TryLock() bool {
	x := cx
	if x == nil {
		return m.real.TryLock()
	}
	if x.aborting {
		return false
	}
	m.sync(x)
	x.point(&pendingOp{name: "trywlock", obj: x.objID(m), nopre: nopreOf(x, &m.nopre, 2)})
	if m.wmu || m.readers != 0 {
		return false
	}
	m.wmu, m.wactive = true, true
	if x.race != nil {
		x.cur.vc.join(m.vcW)
		x.cur.vc.join(m.vcR)
	}
	return true
}

// TryRLock tries to take a read lock without blocking.
func (m *RWMutex) TryRLock() bool {
	x := cx
	if x == nil {
		return m.real.TryRLock()
	}
	if x.aborting {
		return false
	}
	m.sync(x)
	x.point(&pendingOp{name: "tryrlock", obj: x.objID(m), nopre: nopreOf(x, &m.nopre, 2)})
	if m.wmu {
		return false
	}
	m.readers++
	if x.race != nil {
		x.cur.vc.join(m.vcW)
	}
	return true
}

// Cond is the instrumented sync.Cond: Wait releases L, blocks until a later Signal/Broadcast
// has released this waiter (FIFO for Signal), and re-acquires L.
type Cond struct {
	L       sync.Locker
	real    *sync.Cond
	epoch   uint64
	next    int          // ticket of the next waiter
	pending []int        // tickets waiting, oldest first
	woken   map[int]bool // tickets released by Signal/Broadcast
}

// NewCond mirrors sync.NewCond.
func NewCond(l sync.Locker) *Cond { return &Cond{L: l, real: sync.NewCond(l)} }

func (c *Cond) sync(x *Exec) {
	if c.epoch != x.epoch {
		c.epoch, c.next, c.pending, c.woken = x.epoch, 0, nil, map[int]bool{}
	}
}

// Wait mirrors sync.Cond.Wait.
func (c *Cond) Wait() {
	x := cx
	if x == nil {
		c.real.Wait()
		return
	}
	if x.aborting {
		return
	}
	c.sync(x)
	t := c.next
	c.next++
	c.pending = append(c.pending, t)
	c.L.Unlock()
	x.point(&pendingOp{name: "condwait", obj: x.objID(c), enabled: func() bool { return c.woken[t] }, nopre: x.nopreFor(2)})
	delete(c.woken, t)
	c.L.Lock()
}

// Signal wakes the oldest waiter.
func (c *Cond) Signal() {
	x := cx
	if x == nil {
		c.real.Signal()
		return
	}
	if x.aborting {
		return
	}
	c.sync(x)
	x.point(&pendingOp{name: "condsignal", obj: x.objID(c), nopre: x.nopreFor(2)})
	if len(c.pending) > 0 {
		c.woken[c.pending[0]] = true
		c.pending = c.pending[1:]
	}
}

// Broadcast wakes all waiters.
func (c *Cond) Broadcast() {
	x := cx
	if x == nil {
		c.real.Broadcast()
		return
	}
	if x.aborting {
		return
	}
	c.sync(x)
	x.point(&pendingOp{name: "condbroadcast", obj: x.objID(c), nopre: x.nopreFor(2)})
	for _, t := range c.pending {
		c.woken[t] = true
	}
	c.pending = nil
}

// OnceFunc, OnceValue and OnceValues mirror the go1.21 helpers on top of the instrumented Once.
func OnceFunc(f func()) func() {
	var o Once
	return func() { o.Do(f) }
}

func OnceValue[T any](f func() T) func() T {
	var o Once
	var v T
	return func() T {
		o.Do(func() { v = f() })
		return v
	}
}

func OnceValues[T1, T2 any](f func() (T1, T2)) func() (T1, T2) {
	var o Once
	var v1 T1
	var v2 T2
	return func() (T1, T2) {
		o.Do(func() { v1, v2 = f() })
		return v1, v2
	}
}

type atomicKeyT struct{}

var atomicKey = &atomicKeyT{}

type sysKeyT struct{ _ byte }

var sysKey = &sysKeyT{}

// atomicPoint is the scheduling point after an operation of package sync/atomic (inserted by the
// instrumenter): all atomic operations are ordered events on one shared object, and they
// synchronise (release/acquire) in the race oracle.
func atomicPoint() {
	x := cx
	if x == nil || x.aborting {
		return
	}
	x.point(&pendingOp{name: "atomic", obj: x.objID(atomicKey), nopre: x.nopreFor(3)})
	if x.race != nil {
		x.cur.vc.join(x.atomicVC)
		x.atomicVC = x.cur.vc.clone()
		x.cur.vc.tick(x.cur.id)
	}
}

// SysArg wraps the first argument of a host file system call made by the disk packages (inserted by
// the instrumenter): a scheduling point right before the call. All such calls are ordered events on
// one shared object (the host file system) and synchronise in the race oracle.
func SysArg[T any](v T) T {
	x := cx
	if x == nil || x.aborting {
		return v
	}
	x.point(&pendingOp{name: "syscall", obj: x.objID(sysKey), nopre: x.nopreFor(2)})
	if x.race != nil {
		x.cur.vc.join(x.sysVC)
		x.sysVC = x.cur.vc.clone()
		x.cur.vc.tick(x.cur.id)
	}
	return v
}

// AtomicAfter wraps a value-returning sync/atomic call.
func AtomicAfter[T any](v T) T {
	atomicPoint()
	return v
}

// AtomicV wraps a sync/atomic call used as a statement.
func AtomicV(f func()) {
	f()
	atomicPoint()
}

// OnceFunc etc. are not used by goatcore (go 1.16 code base).
