//go:build go1.21

package vsched

import (
	"reflect"
)

// vclock is a vector clock indexed by thread id.
type vclock []uint32

func newVC(id int) vclock {
	v := make(vclock, id+1)
	v[id] = 1
	return v
}

func (v vclock) clone() vclock {
	o := make(vclock, len(v))
	copy(o, v)
	return o
}

func (v *vclock) join(o vclock) {
	if len(o) > len(*v) {
		n := make(vclock, len(o))
		copy(n, *v)
		*v = n
	}
	for i, c := range o {
		if c > (*v)[i] {
			(*v)[i] = c
		}
	}
}

func (v *vclock) tick(id int) {
	if id >= len(*v) {
		n := make(vclock, id+1)
		copy(n, *v)
		*v = n
	}
	(*v)[id]++
}

func (v vclock) at(id int) uint32 {
	if id < len(v) {
		return v[id]
	}
	return 0
}

type access struct {
	thread int
	clock  uint32
	site   string
}

type locState struct {
	lastW access
	hasW  bool
	reads []access // reads since the last write (at most one per thread)
}

type raceState struct {
	// pins keeps every tracked object reachable until the end of the execution: a freed object's
	// address could otherwise be reused by an unrelated object of another thread within the same
	// execution, and two accesses to DIFFERENT objects would be reported as a race on one location
	pins  []interface{}
	locs  map[uintptr]*locState
	names map[uintptr]string
	races []RaceInfo
	seen  map[string]bool
}

func newRaceState() *raceState {
	return &raceState{locs: map[uintptr]*locState{}, names: map[uintptr]string{}, seen: map[string]bool{}}
}

func (x *Exec) access(addr uintptr, site string, write bool, pin interface{}) {
	r := x.race
	t := x.cur
	st := r.locs[addr]
	if st == nil {
		st = &locState{}
		r.locs[addr] = st
		r.pins = append(r.pins, pin)
	}
	report := func(kind string, prev access) {
		key := kind + "|" + prev.site + "|" + site
		if r.seen[key] {
			return
		}
		r.seen[key] = true
		r.races = append(r.races, RaceInfo{Loc: site, Kind: kind, First: prev.site, Second: site})
	}
	if st.hasW && st.lastW.thread != t.id && st.lastW.clock > t.vc.at(st.lastW.thread) {
		if write {
			report("write-write", st.lastW)
		} else {
			report("write-read", st.lastW)
		}
	}
	if write {
		for _, rd := range st.reads {
			if rd.thread != t.id && rd.clock > t.vc.at(rd.thread) {
				report("read-write", rd)
			}
		}
		st.lastW = access{t.id, t.vc.at(t.id), site}
		st.hasW = true
		st.reads = st.reads[:0]
	} else {
		for i := range st.reads {
			if st.reads[i].thread == t.id {
				st.reads[i] = access{t.id, t.vc.at(t.id), site}
				return
			}
		}
		st.reads = append(st.reads, access{t.id, t.vc.at(t.id), site})
	}
}

// MR logs a read of map m (lookup, len, range) and returns m.
func MR[M ~map[K]V, K comparable, V any](m M, loc string) M {
	x := cx
	if x == nil || x.race == nil || x.aborting || m == nil {
		return m
	}
	x.access(reflect.ValueOf(m).Pointer(), loc, false, m)
	return m
}

// MW logs a write of map m (assignment, delete) and returns m.
func MW[M ~map[K]V, K comparable, V any](m M, loc string) M {
	x := cx
	if x == nil || x.race == nil || x.aborting || m == nil {
		return m
	}
	x.access(reflect.ValueOf(m).Pointer(), loc, true, m)
	return m
}

// Rd logs a read of the multi-word variable at p and returns p.
func Rd[T any](p *T, loc string) *T {
	x := cx
	if x == nil || x.race == nil || x.aborting {
		return p
	}
	x.access(reflect.ValueOf(p).Pointer(), loc, false, p)
	return p
}

// Wr logs a write of the multi-word variable at p and returns p.
func Wr[T any](p *T, loc string) *T {
	x := cx
	if x == nil || x.race == nil || x.aborting {
		return p
	}
	x.access(reflect.ValueOf(p).Pointer(), loc, true, p)
	return p
}
