//go:build go1.21

package vsched

import (
	"context"
	"reflect"
	"runtime"
	"time"
)

// chanState carries happens-before clocks for one channel (race oracle only) and the
// closed flag (needed to know that a send on a full, closed channel is enabled).
type chanState struct {
	closed  bool
	vcSend  []vclock // clocks of buffered, not yet received sends (FIFO)
	vcClose vclock
	vcRecv  vclock
}

// chanKey identifies a channel by its address. The channel is pinned until the end of the
// execution: without the reference the collector may free it and hand the address to a new
// channel, which would inherit the old one's identity and modelled state.
func chanKey(ch interface{}) uintptr {
	p := reflect.ValueOf(ch).Pointer()
	if x := cx; x != nil && p != 0 {
		if _, ok := x.chanPins[p]; !ok {
			x.chanPins[p] = ch
		}
	}
	return p
}

func (x *Exec) chanSt(key uintptr) *chanState {
	st := x.chans[key]
	if st == nil {
		st = &chanState{}
		x.chans[key] = st
	}
	return st
}

func probeClosed[T any](ch <-chan T) bool {
	if len(ch) != 0 {
		return false
	}
	select {
	case _, ok := <-ch:
		return !ok
	default:
		return false
	}
}

func recvEnabled[T any](ch <-chan T) bool {
	if ch == nil {
		return false
	}
	return len(ch) > 0 || probeClosed(ch)
}

func (x *Exec) sendEnabled(key uintptr, ln, cp int, isNil bool) bool {
	if isNil {
		return false
	}
	if ln < cp {
		return true
	}
	if st := x.chans[key]; st != nil && st.closed {
		return true // will panic, as in Go
	}
	return false
}

func checkBuffered(cp int, isNil bool) {
	if cp == 0 && !isNil {
		panic("vsched: send on an unbuffered channel is not modelled")
	}
}

// Send is the instrumented `ch <- v`.
func Send[T any](ch chan<- T, v T) {
	x := cx
	if x == nil {
		ch <- v
		return
	}
	if x.aborting {
		x.exitAborted()
	}
	checkBuffered(cap(ch), ch == nil)
	key := chanKey(ch)
	x.point(&pendingOp{name: "send", obj: x.objID(key), enabled: func() bool { return x.sendEnabled(key, len(ch), cap(ch), ch == nil) }, nopre: x.nopreFor(2)})
	if x.race != nil {
		st := x.chanSt(key)
		st.vcSend = append(st.vcSend, x.cur.vc.clone())
		x.cur.vc.join(st.vcRecv) // k-th recv happens before (k+cap)-th send: over-approximated
		x.cur.vc.tick(x.cur.id)
	}
	ch <- v // cannot block: buffer has room (or closed: panics like Go)
}

// effect records what a channel operation did, for the explorer's happens-before cache:
// consuming or sending a value changes the channel ("w:chan"), observing a closed or empty
// channel only reads it ("r:chan"; reads commute with each other).
func (x *Exec) effect(key uintptr, write bool) {
	name := "r:chan"
	if write {
		name = "w:chan"
	}
	x.trace = append(x.trace, Step{x.cur.id, name, x.objID(key), false})
}

func (x *Exec) afterRecv(key uintptr, ok bool) {
	if x.race == nil {
		return
	}
	st := x.chanSt(key)
	if st.vcRecv == nil {
		st.vcRecv = x.cur.vc.clone()
	} else {
		st.vcRecv.join(x.cur.vc)
	}
	if ok && len(st.vcSend) > 0 {
		x.cur.vc.join(st.vcSend[0])
		st.vcSend = st.vcSend[1:]
	} else if !ok {
		x.cur.vc.join(st.vcClose)
	}
}

// Recv is the instrumented `<-ch`.
func Recv[T any](ch <-chan T) T {
	v, _ := recv2(ch)
	return v
}

// Recv2 is the instrumented `v, ok := <-ch`.
func Recv2[T any](ch <-chan T) (T, bool) {
	return recv2(ch)
}

func recv2[T any](ch <-chan T) (T, bool) {
	x := cx
	if x == nil {
		v, ok := <-ch
		return v, ok
	}
	if x.aborting {
		x.exitAborted()
	}
	key := uintptr(0)
	if ch != nil {
		key = chanKey(ch)
	}
	x.point(&pendingOp{name: "recv", obj: 0, enabled: func() bool { return recvEnabled(ch) }, nopre: x.nopreFor(3)})
	v, ok := <-ch
	x.effect(key, ok)
	x.afterRecv(key, ok)
	return v, ok
}

// Close is the instrumented close(ch).
func Close[T any](ch chan<- T) {
	x := cx
	if x == nil {
		close(ch)
		return
	}
	if x.aborting {
		return
	}
	key := chanKey(ch)
	x.point(&pendingOp{name: "close", obj: x.objID(key), nopre: x.nopreFor(2)})
	st := x.chanSt(key)
	if x.race != nil {
		st.vcClose = x.cur.vc.clone()
		x.cur.vc.tick(x.cur.id)
	}
	close(ch) // panics on double close like Go
	st.closed = true
}

// Len is the instrumented len(ch): a visible read of the channel state.
func Len(ch interface{}) int {
	x := cx
	rv := reflect.ValueOf(ch)
	if x == nil || x.aborting {
		return rv.Len()
	}
	key := rv.Pointer()
	x.point(&pendingOp{name: "len", obj: x.objID(key), nopre: x.nopreFor(2)})
	return rv.Len()
}

// ---- select ----

// SelCase is one communication clause of an instrumented select.
type SelCase interface {
	ready(x *Exec) bool
	fire(x *Exec)
	key() uintptr
}

// RCase is a receive clause.
type RCase[T any] struct {
	ch <-chan T
	V  T
	Ok bool
	k  uintptr
}

// RecvCase builds a receive clause.
func RecvCase[T any](ch <-chan T) *RCase[T] {
	c := &RCase[T]{ch: ch}
	if ch != nil {
		c.k = chanKey(ch)
	}
	return c
}

func (c *RCase[T]) ready(x *Exec) bool { return recvEnabled(c.ch) }
func (c *RCase[T]) fire(x *Exec) {
	c.V, c.Ok = <-c.ch
	x.afterRecv(c.k, c.Ok)
}
func (c *RCase[T]) key() uintptr { return c.k }
func (c *RCase[T]) wrote() bool  { return c.Ok }

// SCase is a send clause.
type SCase[T any] struct {
	ch chan<- T
	v  T
	k  uintptr
}

// SendCase builds a send clause.
func SendCase[T any](ch chan<- T, v T) *SCase[T] {
	c := &SCase[T]{ch: ch, v: v}
	if ch != nil {
		c.k = chanKey(ch)
	}
	return c
}

func (c *SCase[T]) ready(x *Exec) bool {
	return x.sendEnabled(c.k, len(c.ch), cap(c.ch), c.ch == nil)
}
func (c *SCase[T]) fire(x *Exec) {
	if x.race != nil {
		st := x.chanSt(c.k)
		st.vcSend = append(st.vcSend, x.cur.vc.clone())
		x.cur.vc.join(st.vcRecv)
		x.cur.vc.tick(x.cur.id)
	}
	c.ch <- c.v
}
func (c *SCase[T]) key() uintptr { return c.k }
func (c *SCase[T]) wrote() bool  { return true }

// Select is the instrumented select statement. It returns the index of the clause that
// fired, or -1 for default. Inactive mode falls back to reflect.Select.
func Select(hasDefault bool, cases ...SelCase) int {
	x := cx
	if x == nil {
		return selectReal(hasDefault, cases)
	}
	if x.aborting {
		x.exitAborted()
	}
	for _, c := range cases {
		if sc, ok := c.(interface{ capOf() (int, bool) }); ok {
			cp, isNil := sc.capOf()
			checkBuffered(cp, isNil)
		}
	}
	x.point(&pendingOp{name: "select", obj: 0, enabled: func() bool {
		if hasDefault {
			return true
		}
		for _, c := range cases {
			if c.ready(x) {
				return true
			}
		}
		return false
	}, nopre: x.nopreFor(2)})
	var ready []int
	for i, c := range cases {
		if c.ready(x) {
			ready = append(ready, i)
		}
	}
	for _, c := range cases {
		x.effect(c.key(), false) // the outcome depends on the state of every channel of the select
	}
	if len(ready) == 0 {
		return -1
	}
	pick := 0
	if len(ready) > 1 {
		pick = x.cfg.Chooser.Choose(KindSelect, len(ready), false)
		if pick < 0 || pick >= len(ready) {
			pick = 0
		}
	}
	i := ready[pick]
	cases[i].fire(x)
	if w, ok := cases[i].(interface{ wrote() bool }); ok && w.wrote() {
		x.effect(cases[i].key(), true)
	}
	return i
}

func (c *SCase[T]) capOf() (int, bool) { return cap(c.ch), c.ch == nil }

// Block is `select {}`.
func Block() {
	x := cx
	if x == nil {
		select {}
	}
	if x.aborting {
		x.exitAborted()
	}
	x.point(&pendingOp{name: "block", enabled: func() bool { return false }})
}

func selectReal(hasDefault bool, cases []SelCase) int {
	// Free-running mode: poll with reflect.Select over the real channels.
	rc := make([]reflect.SelectCase, 0, len(cases)+1)
	for _, c := range cases {
		rc = append(rc, c.(interface{ reflectCase() reflect.SelectCase }).reflectCase())
	}
	if hasDefault {
		rc = append(rc, reflect.SelectCase{Dir: reflect.SelectDefault})
	}
	i, v, ok := reflect.Select(rc)
	if hasDefault && i == len(cases) {
		return -1
	}
	cases[i].(interface {
		setFromReflect(v reflect.Value, ok bool)
	}).setFromReflect(v, ok)
	return i
}

func (c *RCase[T]) reflectCase() reflect.SelectCase {
	return reflect.SelectCase{Dir: reflect.SelectRecv, Chan: reflect.ValueOf(c.ch)}
}
func (c *RCase[T]) setFromReflect(v reflect.Value, ok bool) {
	c.Ok = ok
	if ok {
		c.V = v.Interface().(T)
	}
}
func (c *SCase[T]) reflectCase() reflect.SelectCase {
	return reflect.SelectCase{Dir: reflect.SelectSend, Chan: reflect.ValueOf(c.ch), Send: reflect.ValueOf(&c.v).Elem()}
}
func (c *SCase[T]) setFromReflect(v reflect.Value, ok bool) {}

// ---- context ----

// vctx is a context whose Done channel is closed through the scheduler and that never
// arms a timer (deadlines are recorded but never fire: no property depends on them).
type vctx struct {
	parent   context.Context
	done     chan struct{}
	err      error
	deadline time.Time
	hasDL    bool
}

func (c *vctx) Deadline() (time.Time, bool) {
	if c.hasDL {
		return c.deadline, true
	}
	return c.parent.Deadline()
}
func (c *vctx) Done() <-chan struct{} { return c.done }
func (c *vctx) Err() error {
	if c.err != nil {
		return c.err
	}
	return c.parent.Err()
}
func (c *vctx) Value(k interface{}) interface{} { return c.parent.Value(k) }

func (c *vctx) cancel() {
	x := cx
	if x != nil && x.aborting {
		return
	}
	if c.err != nil {
		return
	}
	c.err = context.Canceled
	Close(c.done)
}

func newVctx(parent context.Context) *vctx {
	if parent.Done() != nil {
		panic("vsched: derived cancellable contexts are not modelled")
	}
	return &vctx{parent: parent, done: make(chan struct{})}
}

// CtxWithCancel is the instrumented context.WithCancel.
func CtxWithCancel(parent context.Context) (context.Context, context.CancelFunc) {
	if cx == nil {
		return context.WithCancel(parent)
	}
	c := newVctx(parent)
	return c, c.cancel
}

// CtxWithDeadline is the instrumented context.WithDeadline.
func CtxWithDeadline(parent context.Context, d time.Time) (context.Context, context.CancelFunc) {
	if cx == nil {
		return context.WithDeadline(parent, d)
	}
	c := newVctx(parent)
	c.deadline, c.hasDL = d, true
	return c, c.cancel
}

// CtxWithTimeout is the instrumented context.WithTimeout.
func CtxWithTimeout(parent context.Context, d time.Duration) (context.Context, context.CancelFunc) {
	if cx == nil {
		return context.WithTimeout(parent, d)
	}
	return CtxWithDeadline(parent, time.Now().Add(d))
}

var _ = runtime.Gosched
