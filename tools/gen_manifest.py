#!/usr/bin/env python3
"""Generates /verif/MANIFEST.json from the table below (kept in one place so that the
manifest stays valid while checks are added)."""
import json, sys

BASELINE_OFF = ("cd /repo && GOFLAGS=-mod=mod GOPROXY=off go build ./... && "
                "GOFLAGS=-mod=mod GOPROXY=off go test -json -vet=off -count=1 -timeout 25m ./...")

# id -> (level, technique, text, note, design_ref)
CHECKS = {
 "C01": ("model_checking",
         "explicit-state BFS over canonical model trees; every (state, op) transition executed on a fresh real memfs by history replay and compared step-by-step with a tree reference model; retained-observation probes",
         "All 361 (quick) / 841+ (thorough) trees of depth<=2 over 2 names and 2-3 contents are reached on the real memfs; from each, every operation of a ~2.4k-6k entry alphabet (16 methods x path spellings incl. '.', '', '//', inner/trailing '..', leading '/', escapes x contents/chunkings/buffer sizes x root/child/grandchild views) is executed and its result, the full tree walk and structural sanity are compared with the model; aliasing is decided by scribbling over every buffer handed in/out and by holding read results across every mutator; view chains created with a climbing Filespace() argument must fail.",
         "Trusts the 250-line tree model (models/treefs) and the result-class table (DESIGN 2.6); names {a,b}, depth<=2 states; listing order/sizes/times not modelled.",
         "DESIGN.md 3/C01"),
 "C02": ("model_checking",
         "explicit-state enumeration of canonical trees; lock-step differential execution of every (state, op) on a real disk filespace (materialised in a scratch dir with canaries outside the root) and a real memfs, both also compared with the tree reference model",
         "From each of the 361/841 canonical trees every op of the alphabet is applied to both real backends (root and child views). Where the stated preconditions hold (model class MUST-OK) results, returned data/listings (as sets) and the resulting trees must be equal on disk, in memory and in the model; otherwise both must fail cleanly: no panic, nothing outside the addressed paths changes, the host directory outside the root (canary file/dir) is untouched. Histories of <=3 operations on retained root/child-view objects run in lock-step on both backends; every ReadFile/ReadDir result on disk is held across every later operation (reads included) and re-inspected. 94 programs of 2-3 concurrent operations (creations, listings, reads, removal of a sibling entry) on ONE disk filespace are explored under every schedule with <=2/3 preemptions, every host file system call (package functions and methods of os / io/fs values) of the disk packages being a scheduling point: all operations must succeed and the final tree must be a sequential outcome of the model.",
         "Disk states are materialised with plain os calls; no symlinks/permissions; removal of the real root and directory-into-itself copies are excluded (unbounded on disk); the concurrent programs only contain operations whose preconditions hold in every order (the disk backend is not linearizable against removals of addressed nodes, and the statement quantifies over histories).",
         "DESIGN.md 3/C02"),
 "C03": ("exploration",
         "bounded exhaustive enumeration of path strings x 16 operations x 33 view kinds x preludes on the real code with canaries outside every view root (no sampling)",
         "Every path string of <=3 (quick) / <=4 (thorough) segments over {name,'.','..',''} with/without leading '/' is passed to every operation (both arguments of the copies, and as Filespace() argument followed by write/list/remove) of every view kind: memory child, child-of-child, disk root/child/grandchild, encrypted over either, read-only mask and its children, sub-path helper and nesting, cache children and caches over child views (committed before the comparison), views rooted in an empty directory inside an otherwise empty directory, view roots named like a sibling plus a leading dot, and disk views created from a relative root before the process changes its working directory. Oracle: the snapshot of everything outside the view root (store tree, host directory, cache-visible tree) is byte-identical, and no returned content/listing/stat/existence answer belongs to a node outside the root.",
         "Segment bound as stated (the 'randomly beyond' part is not claimed); every case also after an 'outside sweep' (all reads of all store nodes through the parent object and a sibling view) and, for climbing paths, after write/list/mkdir+remove preludes through the same view object; three view kinds over a store written through the encryption; one store shape with same-named nodes inside and outside; the view's own root node counts as inside.",
         "DESIGN.md 3/C03"),
 "C04": ("fault_enumeration",
         "bounded exhaustive enumeration of stream cases (content x chunking x previous state x buffer x backend) and exhaustive single-fault (thorough: double-fault) positions during every copy helper call over all 25 backend pairs; bounded-preemption schedule exploration of the concurrent tree copy",
         "Writers: every split of each content into <=3 chunks over every previous destination state on 5 backends, read back through ReadFile and Reader with 4 buffer sizes. Copy helpers (fshelper.Copy, Copier.Do for file and directory, StreamCopy) on 6 tree shapes (one with a 70 KiB file; one with sibling names differing by a scratch suffix such as .tmp, the suffixed file created first) for every source/destination backend pair, fault-free over 5 destination pre-states (empty, older content, unrelated nodes, files where the source has directories, directories where it has files; nil result => every source node present with kind and bytes), with the failing layer also below the encryption, and once per numbered call crossing the Filespace/Reader/Writer interfaces failing (error and short-write variants): nil result implies a byte-identical destination. fshelper.Copy additionally under every schedule with <=1 (thorough 2) preemptions.",
         "Faults are injected by a harness-side Filespace wrapper (no source annotation); bool queries fail by answering false; 5 KiB is the largest stream content, 70 KiB the largest copied file.",
         "DESIGN.md 3/C04"),
 "C05": ("fault_enumeration",
         "bounded exhaustive enumeration of cipher/base/secret/salt/host-binding configurations x plaintexts x write/read paths; every truncation length and every single-byte corruption of the stored bytes; name-space lock-step with the tree model; preemption-bounded exhaustive schedule exploration of 2-3 filespaces with different secrets used concurrently",
         "Round trip through all write-path/read-path pairs (incl. overwrite of shorter/longer content), substring secrecy of the raw bytes, nonce freshness, rejection under every other (secret,salt) of the pool and among 7 settings with long key material (common 64- / 100-byte prefixes), and for the stored bytes of each plaintext EVERY truncation length 0..N-1 and EVERY single-byte corruption (all 255 values for short files) must be answered with an error - never data, never a panic - on a fresh base each time; name-space operations are compared step by step with the tree model through the encrypted filespace; every round-trip case also crosses a child view in both directions (parent writes / child reads; child writes / parent and an independent same-settings filespace read).",
         "crypto/rand.Reader replaced by a deterministic non-repeating stream; concurrent part: 14 programs, <=2/3 preemptions, race oracle on the encryptfs packages; caller buffers are re-used and wiped; cryptographic strength out of scope; plaintext lengths include 70000 (thorough 140001) with every truncation length on the whole-file paths; corruptions (and truncations on the other paths) of long files use strided interior positions (stated in evidence).",
         "DESIGN.md 3/C05"),
 "C06": ("model_checking",
         "exhaustive enumeration of bounded cache-operation histories (depth 3/4, 45-op alphabet incl. intermediate Commits, copies onto written paths, file/directory type changes, a writer closed without a write) over 4 initial remotes on the real fscache, compared with a fold over the tree reference model; exhaustive journal map-order choices and exhaustive failing-remote-call positions during Commit",
         "Every history is replayed on a fresh cache over a fresh remote; the remote must be untouched before Commit, equal to the model fold after Commit and after a second Commit; for short histories every iteration order of the four journal maps (explorer choice) and every single failing remote call during Commit (then a fault-free Commit) are explored. Six signatures of the cache's design gap (no tombstones, no merged view of buffer and remote) are recorded as known findings with root-cause matchers; three defects were repaired.",
         "Expected remote = tree-model fold of the operations the cache reported successful; histories containing an operation whose outcome is unspecified at that point are skipped (counted), except a file copied onto an existing file: if the cache reports success the destination is a copy from then on.",
         "DESIGN.md 3/C06"),
 "C07": ("model_checking",
         "same bounded-history enumeration as C06 (thorough: depth 4 on one initial remote); after every history every read-type operation on an 18-path pool (cache and child views) is compared with the overlay reference model",
         "For every history (every prefix is a history of its own) all of IsExist/IsFile/IsDir/ReadFile/Reader/ReadDir/Lstat on 18 overlapping paths, on the cache and on child views of it, must answer like the overlay model (remote + pending successful operations). The cache's missing tombstones are recorded as known findings by root cause (trigger must be present in the history for the very path), everything else is reported.",
         "Overlay model as in C06; the root-cause matchers are predicates over the history, not over the symptom alone.",
         "DESIGN.md 3/C07"),
 "C09": ("model_checking",
         "program enumeration x preemption-bounded exhaustive schedule exploration of the real memfs; each complete interleaving's call/return history and final tree checked for linearizability against the tree reference model (porcupine), plus race oracle",
         "All unordered pairs of 12 single operations (incl. writer/reader streams held open across a scheduling point) from two initial trees, 8 three-thread, 4 two-operation 8 held-handle programs (a reader or writer held across another write, against writes, reads and copies of the held file) 2 programs with a refused write followed by / racing with successful writes in the same directory and 16 programs of concurrent first uses of a freshly deep-copied directory are executed under every schedule within the preemption bound (pairs 3/8, triples 2/4). The history must have a sequential explanation that respects real time and yields the final tree; listings unique; no panic, no deadlock; no unordered conflicting access to memfs multi-word fields. Parent-directory creation may become visible earlier than the node itself, and a copy racing with a recursive remove of both ends is judged by the statement's clauses only (complete values, unique names).",
         "Linearizability is used as the reading of 'takes effect and is visible afterwards'; 2-3 threads; bounds as reported.",
         "DESIGN.md 3/C09"),
 "C10": ("exploration",
         "exhaustive enumeration of bounded programs (ordered definition calls x request sequences) executed on the real provider and on a reference interpreter, compared request by request",
         "Every ordered sequence of <=2-4 definition calls over 3 names (explicit and default slot per name; factory shapes const/fail/nil/requires X/tolerates X/injects X/injects ?X for every target incl. self, so every cyclic graph on <=3 names occurs) is followed by every sequence of <=1-3 requests (Get, InjectTo with required and optional tags, Keys, late definitions). Outcome class, instance identity, invocation counters and recursion depth must equal the reference (memoised resolver, explicit beats default, frozen after first resolution, cycle = error). Programs of explicit definitions also run on two static providers sharing one caller-owned factories map (each against a frozen reference; the caller's map unchanged); for every name the library itself registers (goatapp's App, the bundled modules' services) an explicit Set/AddFactory before or after must be accepted and win; every sequence of <=3 InjectTo requests on a provider with a secondary data-scope injector (failed injections change nothing for later requests).",
         "Duplicate definitions of one slot are unspecified by the statement and not generated; error texts are not compared.",
         "DESIGN.md 3/C10"),
 "C11": ("model_checking",
         "program enumeration (scope trees x task bodies x failing listeners x late-failing tasks) x preemption-bounded exhaustive schedule exploration with a happens-before state cache, on the real scope/eventscope/contextscope code",
         "112 programs over 5 scope trees (task bodies incl. Stop-then-Kill / Stop-then-AppendError / create-and-close a child scope while another task ends the scope) (root; shared child; isolated child; child+grandchild; shared+isolated) with one closer thread per scope and one thread per task; recorders on all 11 events on the root (twice) and on every child. Every schedule within the bound (2-scope trees: 1 quick / 2 thorough preemptions; 3-scope trees: 0 / 1) is executed; the oracle checks on the global-step event log: event order and exactly-once, commit xor rollback where the error source is ordered, waiting for tasks and children, Close result, loud second Close without events, listener order, shared vs isolated failure, parent stop reaching the isolated child, no panic, no deadlock; a second Close issued by another goroutine while the first waits is refused loudly.",
         "Commit/rollback and the Close result are only judged where the error source cannot race with the decision; bounds as reported; HB-cache soundness relies on harness observations being recorded as dependent trace events.",
         "DESIGN.md 3/C11"),
 "C12": ("model_checking",
         "program enumeration x stateless preemption-bounded DFS over all schedules of the real contextscope/scope code under the controlled scheduler, with a vector-clock happens-before race oracle on multi-word fields",
         "All pairs of single operations {AppendError, Kill, Stop, IsDone, Errors}, curated two-operation threads and three-thread programs on plain, isolated, full and child scopes, plus child creation/closing after and racing with the parent's end; every schedule with <=3 (quick) / <=4 (thorough) preemptions for two threads and <=2/3 for three; readers that act on the done signal, errors recorded through the parent wrapper of a shared context with Err() calls in between; oracle: no panic, error count and identity, done signal, done-implies-error-visible (programs without Stop), the texts of Err()/Wait()/Close()/parent.Err() naming every appended error, no deadlock, no unordered conflicting access to the error slices. Child-closing programs: a registered child whose close-time listener fails is closed while another goroutine waits on / closes the parent, whose answers must name the listener's error. Orphan-child programs: a child of an ended scope signals while / after the parent is closed; the context an isolated scope was derived from ends while goroutines signal on the isolated scope; children created while the parent ends next to a registered sibling; failing rollback / after-close listeners whose errors Close() must name.",
         "Bounds as reported in evidence; word-sized fields are outside the race oracle; the shim's model of Mutex/RWMutex/WaitGroup/channels/select is trusted.",
         "DESIGN.md 3/C12"),
 "C13": ("model_checking",
         "bounded-history enumeration against a list-of-maps overlay model; preemption-bounded exhaustive schedule exploration of concurrent locked sections judged by a linearizability checker (porcupine) with each locked section as one atomic step; race oracle",
         "All histories of <=3/4 operations on scope chains of depth 1-3 (and of <=2 operations on chains of application scopes whose parents are live, stopped or killed when the child is created) (keys k1,k2; values 1,2,nil) are compared with the overlay model through plain, locked and nested-locked reads (a section opened on a section's locker); 41 concurrent programs (locked increments, sections on the middle scope of a root-middle-leaf chain with reads through the leaf, plain writes/reads, Keys, nested locked reads, the get-or-create services of the task manager, environment and wait-group units) are explored under every schedule with <=3/2 (quick) or <=5/3 (thorough) preemptions; the recorded call/return history must be linearizable and end in the final value, services must return one instance.",
         "2-3 threads; bounds as reported; the content of Keys() is not judged.",
         "DESIGN.md 3/C13"),
 "C14": ("model_checking",
         "task-graph enumeration x preemption-bounded exhaustive schedule exploration with a happens-before state cache of the real runner/task manager/terminal loop inside a mock application bootstrapped per execution",
         "Task graphs on 2-3 tasks (all wait shapes), failing-command variants, body durations, a submission waiting for an unknown task / for itself / for a later task, wait lists that are prefixes of one caller-owned array, a prerequisite that stops its own scope gracefully while its command keeps running, an async sandbox whose Run returns before its work has finished, a submission with an unknown sandbox (refused; whoever waits for it is refused too), nested pip:run from inside a body, write/read resource locks (also combined with wait lists) and tasks in a sandbox that reports its outcome only by return value are submitted through the real Runner into the real self sandbox; probe commands log begin/end with global steps. Every schedule within the bound is executed (dependent pairs: 1 preemption quick / 2 thorough; other two-task graphs and chains 0/1; three-task graphs with concurrent tasks: thorough only, free switches) and the oracle checks wait order, never-after-failed-prerequisite, sequential bodies stopping at a failing command, refused submissions, TasksManager.Wait's result, lock exclusion, no panic, no deadlock; after all tasks have finished every named resource must be free again (release check through the application's SharedMutex).",
         "Ready select cases are all explored at no cost; accesses to objects outside the focus packages do not order executions in the happens-before cache (declared reduction); siblings sharing a failed context may be cut short.",
         "DESIGN.md 3/C14"),
 "C15": ("model_checking",
         "configuration enumeration (all lock maps over 2 resources for 2-3 holders) x preemption-bounded exhaustive schedule exploration of the real shared mutex, lock-map iteration order as an explored choice",
         "Every unordered pair and (tiered) triple of lock maps over resources {a,b} is run as holders Lock/enter/exit/Unlock under every schedule within the preemption bound; exclusion is checked at every entry, every compatible pair must overlap in at least one explored execution (so the lock does not serialise readers or disjoint holders), and no schedule may deadlock (the shim models RWMutex writer preference). The task runner (the lock's main client) is driven through the whole-application harness with 5 programs combining wait lists, a failing holder and write/read locks, each ending with a release check (every named resource can be taken for writing once all tasks have finished); 17 hold-until programs over 4 resources; ring programs with 3 and 140 pairwise disjoint holders that must all be inside at once (names aliased onto one underlying mutex deadlock; the large ring runs its default schedule only); 3-5 command-level pip:run programs.",
         "2 resources, 2-3 holders, bounds as reported.",
         "DESIGN.md 3/C15"),
 "C16": ("model_checking",
         "program enumeration (bodies x handler subsets x failing handlers) x bounded exhaustive schedule exploration with a happens-before state cache through the real terminal seam of a mock application",
         "For every body kind (succeeds, fails at command 1/2, appends an error, spawns a nested task that succeeds/fails in the self sandbox or in a sandbox reporting only by return value, kills its scope without returning an error), every subset of success/fail/finally handlers and one failing handler, the script `pip:try ...; next command` runs through the real terminal loop; the oracle checks which handlers ran, that every handler began after the end of the body and of every task it spawned, the error state of the surrounding scope (contained unless a handler failed), that the script continues, no panic, no deadlock - under every schedule within the bound (quick: free switches at blocking points and all ready select cases; thorough: 1 preemption).",
         "With a failing handler only 'the wrong handler never runs' and containment are judged per execution (handlers are concurrent tasks sharing a context), plus reachability goals over the completely explored schedule set: some schedule runs the finally handler (resp. the matching handler).",
         "DESIGN.md 3/C16"),
 "C17": ("exploration",
         "exhaustive enumeration of ALL byte strings up to length 7 (quick) / 9 (thorough) over the 9-symbol alphabet of significant bytes and up to length 4/5 over a 12-symbol alphabet of blank-like bytes, and of all rendered argument lists (<=3 arguments, 14-entry pool, 3 quoting forms, 4 separators)",
         "Totality, agreement of SplitArguments with ReadArguments and conservation of bytes >= 0x80 are checked on every string; every string without quotes and '<' against the command-boundary reference (a newline ends the command unless an odd run of backslashes precedes it); strings without quote/backslash/heredoc against a plain-word reference (per-line fields byte-for-byte, eof flags, exact stop at the newline); strings whose backslashes precede a letter or a continuation newline against the argument-count reference; every rendered list must split back to the original list and leave the next command for the next call; InjectArgs mapping is checked on every list and on lists of 0..40/150 positional arguments. 8 command-loop programs (termexec.RunLoop with and without prompt; a command that consumes the line after its own) are explored under every schedule: the next reader finds exactly the bytes after the command's newline.",
         "Length bound as stated (no random part claimed); content of words containing a bare backslash is unspecified by the statement and only counted.",
         "DESIGN.md 3/C17"),
 "C18": ("exploration",
         "exhaustive enumeration of environment values over 12 shell-significant symbols (<=3/4 symbols), 20 word-level symbols (<=2/3) and every byte value in six positions, and of names (<=4 symbols, every byte value); generated scripts executed by the real /bin/sh with a canary command on PATH",
         "For both start-up script builders (container builder; SSH builder through the verif export hook) every value is configured alone and next to a second variable, the generated script plus NUL-terminated printf lines is fed to /bin/sh on stdin in an empty directory; the shell must print every variable verbatim (up to trailing newlines), exit 0 and leave the directory empty although `a` is a real command that drops a canary file. Every name over 10 symbols accepted by Set/SetAll must be a plain identifier. Heredoc terminators seen in earlier scripts are fed back as value lines under both environment answers for pooled state (modelled sync.Pool keeps everything / nothing); stores filled from shared maps; pairs of scripts built before the first is read; the shell already holds a variable named like the first configured one and set-ness is observed; placeholder-like tokens harvested from the string literals of the anchored packages are used as values.",
         "dash as /bin/sh of this image; no SSH/container engine involved; symbol bound as stated.",
         "DESIGN.md 3/C18"),
 "C19": ("model_checking",
         "exhaustive enumeration of request sequences x configurations against a reference renderer (html/template, text/template); preemption-bounded schedule exploration (happens-before cache) of concurrent first requests with a vector-clock race oracle on the providers' cache maps",
         "All 819 sequences of <=3 requests (Base, Layout, View incl. default-layout and missing-view spellings) for both providers, helpers present/absent, cached and uncached: every returned template is rendered and compared (output and defined-name set) with a reference built directly on the standard library, cached and uncached outputs must agree position by position; nested layout/view names whose joined spellings coincide (a + b/c, a/b + c) and a view with an unparsable file in all sequences of <=2 requests; a retry that never returns after an injected fault is a finding. 36 concurrent programs (2-3 threads, first requests for the same/different views, view+layout, base+view) under every schedule within the bound: all callers render like the reference, no error, no unordered conflicting access to the cache maps (how 'no call crashes the process' is decided deterministically). 8 single-threaded programs over files with overlapping definitions inside one layer ask the same request twice of an uncached and of a cached provider with the iteration order of every ranged Go map as an explored choice: all answers equal.",
         "One file set with overlapping definitions across layers, one with overlapping definitions inside the view, layout and helper layers; word-sized cache fields are outside the race oracle; bounds as reported.",
         "DESIGN.md 3/C19"),
 "C20": ("exploration",
         "exhaustive bounded enumeration of nested maps, JSON documents (every leaf string up to 2/3 symbols in every spelling) and flat maps against encoding/json; bounded-preemption schedule exploration of the concurrent loader",
         "Flatten/rebuild inverse laws on all nested maps (3 keys, and the empty string + 1 key, depth<=3, <=3/4 leaves; deep spines to depth 12/20); JSON reading compared with encoding/json on 4 document shapes x every leaf string over 9 JSON-significant symbols incl. escaped spellings and surrogate pairs, every number literal of <=5/6 characters over {0,1,-,+,.,e,E}, and skipped leaf kinds; JSON writing (compact and formatted) must be valid for encoding/json, denote the same map and round-trip, for every value string over 20 symbols (incl. U+1F600, U+10000, U+FFFF and JSON's structural characters) and every prefix-free key set of <=3/4 keys over segments that are prefixes of one another; the translation loader is explored under every schedule with <=1-3 preemptions on 15 directory layouts (one with more files in a directory than the walker's queues hold, capacity scaled down).",
         "encoding/json is the reference; symbol-length bounds as stated; loader values are %-free; the flat key '' alone is refused by the rebuild functions by design (explicit error, accepted).",
         "DESIGN.md 3/C20"),
 "C08": ("model_checking",
         "stateless preemption-bounded DFS over all schedules of the real fsloop/jobsync code under a controlled scheduler (vsched), fair-yield rule, per-program bounds",
         "Every schedule (up to the stated preemption bound, 2-3 for small programs) of the real producer/consumer/completion goroutines is executed for a family of trees, filters, worker limits, channel capacities and injected failures; oracle = multiset of callback arguments, concurrency high-water mark, callbacks after Wait, error list; loops bound to an event scope that is killed during the walk must report the interruption; trees with dot-prefixed names; listings longer than the queue capacity with a free producer slot. Found the lost-item window on the pinned tree (fixed).",
         "Trusts the vsched model of Mutex/RWMutex/WaitGroup/buffered channels/select/Gosched; bounded to <=2 producers/consumers and <=3 preemptions; memfs treated as non-preemptive.",
         "DESIGN.md 3/C08"),
}

NOT_YET = {}

def main():
    props = [json.loads(l) for l in open('/verif/properties.jsonl')]
    checks = []
    na = []
    for p in props:
        i = p['id']
        if i in CHECKS:
            lvl, tech, text, note, ref = CHECKS[i]
            checks.append({
                "property_id": i,
                "quick_cmd": f"bin/vcheck {i} --tier quick",
                "thorough_cmd": f"bin/vcheck {i} --tier thorough",
                "evidence_file": f"/verif/evidence/{i}.json",
                "replay_cmd_template": f"bin/vcheck {i} --replay {{path}}",
                "engine": "vcheck",
                "level_claimed": {"category": lvl, "text": text, "design_ref": ref},
                "level_note": note,
                "technique": tech,
            })
        else:
            na.append({"property_id": i, "reason": NOT_YET.get(i, "check not built yet in this session (planned: exhaustive exploration per DESIGN.md section 3); not claimed until its harness exists")})
    m = {
        "version": 1,
        "setup_cmd": "./setup.sh",
        "hooks": {
            "guard": "verif",
            "enable": "bin/vcheck instruments /repo's working tree into a scratch overlay (go build -overlay <generated> -tags verif); hook files live in /verif/hooks and are added through the overlay, /repo carries no hook code",
            "baseline_off_cmd": BASELINE_OFF,
            "source_commits": [],
            "hook_files": ["/verif/hooks/app/modules/pipelinem/pipservices/sandboxes/sshsb/export_verif.go (//go:build verif; exports the private SSH start-up script builder for C18; added through the overlay)"],
            "add_only": True,
        },
        "engines": [
            {"name": "vcheck", "path": "/verif/cmd/vcheck", "serves_properties": sorted(CHECKS.keys()),
             "kind_free_text": "driver: AST instrumenter (instr/) -> overlay build -> sharded harness (cmd/vharness, checks/*) -> merge -> evidence; engines: vsched controlled scheduler + preemption-bounded DFS (explore/dfs.go), explicit-state BFS by replay and bounded enumerators (explore/)"},
        ],
        "checks": checks,
        "not_applicable": na,
        "notes": "All checks decide by exhaustive enumeration inside stated bounds on the real (instrumented) goatcore code; see DESIGN.md.",
    }
    json.dump(m, open('/verif/MANIFEST.json', 'w'), indent=1)
    print("manifest:", len(checks), "checks,", len(na), "not applicable")

main()
