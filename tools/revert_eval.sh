#!/bin/sh
# usage: revert_eval.sh <fix-commit> <property> [tier] - reverts one "fix:" commit in a scratch worktree of /repo
# and runs the property's check against it (VCHECK_REPO): the check must report the violation again.
commit=$1; prop=$2; tier=${3:-quick}
wt=/tmp/reverteval-wt-$$
git -C /repo worktree add --detach $wt HEAD >/dev/null 2>&1 || { echo "cannot create worktree"; exit 2; }
if ! git -C $wt revert --no-commit $commit >/dev/null 2>&1; then echo "$commit $prop: revert does not apply cleanly (later fixes touch the same lines)"; git -C /repo worktree remove --force $wt; exit 3; fi
cd /verif
VCHECK_REPO=$wt ./bin/vcheck $prop --tier $tier > /tmp/reverteval-$commit-$prop.log 2>&1; rc=$?
git -C /repo worktree remove --force $wt
nv=$(grep -c "^VIOLATION" /tmp/reverteval-$commit-$prop.log)
echo "$commit $prop $tier exit=$rc violations=$nv :: $(grep -m1 'signature:' /tmp/reverteval-$commit-$prop.log | cut -c1-120)"
