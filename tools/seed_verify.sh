#!/bin/sh
# usage: seed_verify.sh <ID> <worktree>   - confirms a seeded change in its own worktree:
# demo fails with the change, existing suite passes with it, demo passes without it.
export GOFLAGS=-mod=mod GOPROXY=off GOSUMDB=off GOTOOLCHAIN=local
id=$1; d=$2
cd $d || exit 2
[ -s seed.patch ] || { echo "no seed.patch"; exit 2; }
sh seed_demo/RUN.sh > /tmp/seedv-$id-with.log 2>&1; with=$?
pkgs=$(go list ./... 2>/dev/null | grep -v seed_demo)
go build ./... > /tmp/seedv-$id-build.log 2>&1; build=$?
go test -vet=off -count=1 $pkgs > /tmp/seedv-$id-suite.log 2>&1; suite=$?
git apply -R seed.patch || { echo "cannot revert"; exit 2; }
sh seed_demo/RUN.sh > /tmp/seedv-$id-without.log 2>&1; without=$?
git apply seed.patch
echo "$id demo_with_change=$with build=$build suite_with_change=$suite demo_without_change=$without"
