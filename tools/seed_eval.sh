#!/bin/sh
# usage: seed_eval.sh <seed-name> <property> [tier]  - applies /verif/seeded/<seed-name>/patch.diff to
# /repo, runs the property's check, and ALWAYS restores /repo afterwards.
name=$1; prop=$2; tier=${3:-quick}
cd /verif
git -C /repo diff --quiet || { echo "/repo is dirty, refusing"; exit 2; }
git -C /repo apply /verif/seeded/$name/patch.diff || { echo "patch does not apply"; exit 2; }
./bin/vcheck $prop --tier $tier > /tmp/seedeval-$name-$tier.log 2>&1; rc=$?
git -C /repo checkout -- . 
git -C /repo clean -fdq -- . 2>/dev/null
nv=$(grep -c "^VIOLATION" /tmp/seedeval-$name-$tier.log)
echo "$name $prop $tier exit=$rc violations=$nv :: $(grep -m1 'signature:' /tmp/seedeval-$name-$tier.log | cut -c1-150)"
