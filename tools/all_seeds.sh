#!/bin/sh
# Regression over every stored seed: each is judged (in a scratch worktree, /repo untouched) by the check
# named in its meta.json (detection.command), quick tier. Log: /tmp/all-seeds.log (one line per seed).
cd /verif
rm -f /tmp/all-seeds.log
for d in seeded/*/; do
  n=$(basename $d)
  p=$(python3 -c "
import json,sys
try:
    c=json.load(open('seeded/$n/meta.json'))['detection']['command'].split()
    print(c[2] if len(c)>2 else '')
except Exception: print('')")
  [ -z "$p" ] && p=${n%-*}
  tools/seed_eval_alt.sh $n $p quick >> /tmp/all-seeds.log 2>&1
done
echo ALLDONE >> /tmp/all-seeds.log
