#!/usr/bin/env python3
"""Regenerate the seeded-changes table in DESIGN.md (between the SEED-TABLE markers) from seeded/*/meta.json."""
import json, glob, os, re
rows = []
for d in sorted(glob.glob('/verif/seeded/*/meta.json')):
    m = json.load(open(d))
    det = m.get('detection', {})
    sigs = det.get('first_signatures') or []
    caught = ', '.join('`%s`' % s for s in sigs[:2]) or det.get('result', '')
    hist = m.get('history', '')
    missed = hist.upper().startswith(('MISSED', 'MASKED', 'FIRST UNBUILDABLE'))
    note = ''
    if missed:
        note = ' — **initially missed**: ' + hist
    change = m.get('change', '').replace('|', '\\|')
    needs = m.get('needs_to_manifest', '').replace('|', '\\|')
    rows.append('| %s | %s (needs: %s) | %s%s |' % (m['id'], change, needs, caught, note.replace('|', '\\|')))
table = '| seed | change (what it needs to manifest) | caught by (quick tier) |\n|---|---|---|\n' + '\n'.join(rows)
p = '/verif/DESIGN.md'
s = open(p).read()
s2 = re.sub(r'(<!-- SEED-TABLE-BEGIN -->\n).*?(\n<!-- SEED-TABLE-END -->)', lambda mo: mo.group(1) + table + mo.group(2), s, flags=re.S)
open(p, 'w').write(s2)
n_missed = sum(1 for r in rows if 'initially missed' in r)
print('rows', len(rows), 'initially missed', n_missed)
