#!/bin/sh
# usage: seed_eval_alt.sh <seed-name> <property> [tier] - like seed_eval.sh, but judges the seeded change in a
# scratch worktree of /repo (VCHECK_REPO) so that /repo itself is not touched (for use while /repo is busy).
name=$1; prop=$2; tier=${3:-quick}
wt=/tmp/seedeval-wt-$$
git -C /repo worktree add --detach $wt HEAD >/dev/null 2>&1 || { echo "cannot create worktree"; exit 2; }
git -C $wt apply /verif/seeded/$name/patch.diff || { echo "patch does not apply"; git -C /repo worktree remove --force $wt; exit 2; }
cd /verif
VCHECK_REPO=$wt ./bin/vcheck $prop --tier $tier > /tmp/seedeval-$name-$tier.log 2>&1; rc=$?
git -C /repo worktree remove --force $wt
nv=$(grep -c "^VIOLATION" /tmp/seedeval-$name-$tier.log)
echo "$name $prop $tier exit=$rc violations=$nv :: $(grep -m1 'signature:' /tmp/seedeval-$name-$tier.log | cut -c1-150)"
