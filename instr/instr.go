// Package instr rewrites goatcore's current working tree into a `go build -overlay` file
// set in which every synchronisation construct goes through the vsched shim.
// /repo itself is never modified.
package instr

import (
	"bytes"
	"encoding/json"
	"fmt"
	"go/ast"
	"go/constant"
	"go/format"
	"go/token"
	"go/types"
	"os"
	"path/filepath"
	"sort"
	"strconv"
	"strings"

	"golang.org/x/tools/go/ast/astutil"
	"golang.org/x/tools/go/packages"
)

const ShimPath = "github.com/goatcms/goatcore/zzverif/vsched"

// Options for one instrumentation run.
type Options struct {
	Repo       string   // /repo
	ShimDir    string   // /verif/shim/vsched
	HooksDir   string   // /verif/hooks (mirrors repo layout; *_verif.go files)
	OutDir     string   // scratch directory for rewritten files
	ConstToVar []string // "pkg/path.Name" constants turned into package variables
	FieldRace  bool     // also hook multi-word struct fields (slice/string/interface)
}

// Stats of a run.
type Stats struct {
	Packages  int
	Files     int
	Rewritten int
	Counts    map[string]int
}

type rewriter struct {
	fset     *token.FileSet
	pkg      *packages.Package
	info     *types.Info
	typeOv   map[ast.Expr]types.Type
	skip     map[ast.Node]bool
	changed  bool
	needVS   bool
	counts   map[string]int
	tmp      int
	opts     *Options
	relFile  string
	lhs      map[ast.Expr]bool
	funcLits []*ast.FuncLit // enclosing function literals during the walk
}

// Run instruments the tree and writes overlay.json into OutDir; returns its path.
func Run(opts Options) (string, *Stats, error) {
	cfg := &packages.Config{
		Dir:        opts.Repo,
		Mode:       packages.NeedName | packages.NeedFiles | packages.NeedCompiledGoFiles | packages.NeedSyntax | packages.NeedTypes | packages.NeedTypesInfo | packages.NeedImports | packages.NeedDeps,
		BuildFlags: []string{"-tags=verif", "-mod=mod"},
		Env:        append(os.Environ(), "GOFLAGS=-mod=mod", "GOPROXY=off", "GOSUMDB=off", "GOTOOLCHAIN=local"),
		Tests:      false,
	}
	// hook files participate in type checking through an overlay
	hookFiles := map[string]string{}
	if opts.HooksDir != "" {
		filepath.Walk(opts.HooksDir, func(p string, fi os.FileInfo, err error) error {
			if err == nil && !fi.IsDir() && strings.HasSuffix(p, ".go") {
				rel, _ := filepath.Rel(opts.HooksDir, p)
				hookFiles[filepath.Join(opts.Repo, rel)] = p
			}
			return nil
		})
	}
	if len(hookFiles) > 0 {
		cfg.Overlay = map[string][]byte{}
		for dst, src := range hookFiles {
			b, err := os.ReadFile(src)
			if err != nil {
				return "", nil, err
			}
			cfg.Overlay[dst] = b
		}
	}
	pkgs, err := packages.Load(cfg, "./...")
	if err != nil {
		return "", nil, fmt.Errorf("load: %w", err)
	}
	st := &Stats{Counts: map[string]int{}}
	overlay := map[string]string{}
	for dst, src := range hookFiles {
		overlay[dst] = src
	}
	constSet := map[string]bool{}
	for _, c := range opts.ConstToVar {
		constSet[c] = true
	}
	sort.Slice(pkgs, func(i, j int) bool { return pkgs[i].PkgPath < pkgs[j].PkgPath })
	for _, p := range pkgs {
		if len(p.Errors) > 0 {
			return "", nil, fmt.Errorf("package %s does not type-check: %v", p.PkgPath, p.Errors[0])
		}
		if strings.Contains(p.PkgPath, "/zzverif/") {
			continue
		}
		st.Packages++
		for i, f := range p.Syntax {
			fname := p.CompiledGoFiles[i]
			st.Files++
			rel, _ := filepath.Rel(opts.Repo, fname)
			rw := &rewriter{fset: p.Fset, pkg: p, info: p.TypesInfo, typeOv: map[ast.Expr]types.Type{}, skip: map[ast.Node]bool{}, counts: st.Counts, opts: &opts, relFile: rel, lhs: map[ast.Expr]bool{}}
			if err := rw.file(f, constSet); err != nil {
				return "", nil, fmt.Errorf("%s: %w", rel, err)
			}
			if !rw.changed {
				continue
			}
			st.Rewritten++
			f.Comments = nil
			f.Doc = nil
			var buf bytes.Buffer
			buf.WriteString("//go:build go1.21\n\n")
			if err := format.Node(&buf, p.Fset, f); err != nil {
				return "", nil, fmt.Errorf("%s: print: %w", rel, err)
			}
			out := filepath.Join(opts.OutDir, "src", rel)
			os.MkdirAll(filepath.Dir(out), 0o755)
			if err := os.WriteFile(out, buf.Bytes(), 0o644); err != nil {
				return "", nil, err
			}
			overlay[fname] = out
		}
	}
	// the shim package, overlaid into the goatcore module
	ents, err := os.ReadDir(opts.ShimDir)
	if err != nil {
		return "", nil, err
	}
	for _, e := range ents {
		if strings.HasSuffix(e.Name(), ".go") && !strings.HasSuffix(e.Name(), "_test.go") {
			overlay[filepath.Join(opts.Repo, "zzverif", "vsched", e.Name())] = filepath.Join(opts.ShimDir, e.Name())
		}
	}
	ovPath := filepath.Join(opts.OutDir, "overlay.json")
	b, _ := json.MarshalIndent(map[string]interface{}{"Replace": overlay}, "", " ")
	if err := os.WriteFile(ovPath, b, 0o644); err != nil {
		return "", nil, err
	}
	return ovPath, st, nil
}

func (rw *rewriter) typeOf(e ast.Expr) types.Type {
	if t, ok := rw.typeOv[e]; ok {
		return t
	}
	return rw.info.TypeOf(e)
}

func (rw *rewriter) vs(name string) ast.Expr {
	rw.needVS = true
	rw.changed = true
	return &ast.SelectorExpr{X: ast.NewIdent("vsched"), Sel: ast.NewIdent(name)}
}

func (rw *rewriter) call(name string, args ...ast.Expr) *ast.CallExpr {
	return &ast.CallExpr{Fun: rw.vs(name), Args: args}
}

func (rw *rewriter) newTmp(prefix string) *ast.Ident {
	rw.tmp++
	return ast.NewIdent(fmt.Sprintf("_v%s%d", prefix, rw.tmp))
}

func isChan(t types.Type) bool {
	if t == nil {
		return false
	}
	_, ok := t.Underlying().(*types.Chan)
	return ok
}

func isMap(t types.Type) bool {
	if t == nil {
		return false
	}
	_, ok := t.Underlying().(*types.Map)
	return ok
}

func (rw *rewriter) isPkgSel(e ast.Expr, pkgPath, name string) bool {
	sel, ok := e.(*ast.SelectorExpr)
	if !ok || sel.Sel.Name != name {
		return false
	}
	id, ok := sel.X.(*ast.Ident)
	if !ok {
		return false
	}
	pn, ok := rw.info.Uses[id].(*types.PkgName)
	return ok && pn.Imported().Path() == pkgPath
}

// isAtomicCall: a call of a function of package sync/atomic or of a method of one of its types.
func (rw *rewriter) isAtomicCall(n *ast.CallExpr) bool {
	sel, ok := n.Fun.(*ast.SelectorExpr)
	if !ok {
		return false
	}
	fn, ok := rw.info.Uses[sel.Sel].(*types.Func)
	return ok && fn.Pkg() != nil && fn.Pkg().Path() == "sync/atomic"
}

// isSysCall: a call of a package-level function of os / io/ioutil from one of the disk packages (a file
// system call: the host file system is shared state, so the call is a scheduling point).
func (rw *rewriter) isSysCall(n *ast.CallExpr) bool {
	if !strings.HasSuffix(rw.pkg.PkgPath, "filesystem/disk") && !strings.HasSuffix(rw.pkg.PkgPath, "filesystem/filespace/diskfs") {
		return false
	}
	sel, ok := n.Fun.(*ast.SelectorExpr)
	if !ok || len(n.Args) == 0 || strings.HasPrefix(sel.Sel.Name, "Is") {
		return false
	}
	id, ok := sel.X.(*ast.Ident)
	if !ok {
		return false
	}
	if _, ok := rw.info.Uses[id].(*types.PkgName); !ok {
		return false
	}
	fn, ok := rw.info.Uses[sel.Sel].(*types.Func)
	return ok && fn.Pkg() != nil && (fn.Pkg().Path() == "os" || fn.Pkg().Path() == "io/ioutil")
}

// isSysMethod: a method call on a value of package os / io/fs (a file handle, a directory entry whose
// Info() stats the file, ...) from one of the disk packages; pure accessors are left alone.
func (rw *rewriter) isSysMethod(n *ast.CallExpr) bool {
	if !strings.HasSuffix(rw.pkg.PkgPath, "filesystem/disk") && !strings.HasSuffix(rw.pkg.PkgPath, "filesystem/filespace/diskfs") {
		return false
	}
	sel, ok := n.Fun.(*ast.SelectorExpr)
	if !ok {
		return false
	}
	switch sel.Sel.Name {
	case "Name", "IsDir", "Mode", "Size", "ModTime", "Sys", "Type", "String", "Error", "Perm", "IsRegular", "Fd":
		return false
	}
	s, ok := rw.info.Selections[sel]
	if !ok || s.Kind() != types.MethodVal {
		return false
	}
	fn, ok := s.Obj().(*types.Func)
	return ok && fn.Pkg() != nil && (fn.Pkg().Path() == "os" || fn.Pkg().Path() == "io/fs")
}

func (rw *rewriter) isBuiltin(e ast.Expr, name string) bool {
	id, ok := e.(*ast.Ident)
	if !ok || id.Name != name {
		return false
	}
	_, ok = rw.info.Uses[id].(*types.Builtin)
	return ok
}

func (rw *rewriter) site(n ast.Node, text string) ast.Expr {
	pos := rw.fset.Position(n.Pos())
	return &ast.BasicLit{Kind: token.STRING, Value: strconv.Quote(fmt.Sprintf("%s:%d %s", rw.relFile, pos.Line, text))}
}

func exprText(fset *token.FileSet, e ast.Expr) string {
	var b bytes.Buffer
	format.Node(&b, fset, e)
	s := b.String()
	if len(s) > 60 {
		s = s[:60]
	}
	return s
}

func (rw *rewriter) file(f *ast.File, constSet map[string]bool) error {
	var ferr error
	// imports: sync -> shim
	for _, imp := range f.Imports {
		p, _ := strconv.Unquote(imp.Path.Value)
		if p == "sync" {
			if imp.Name == nil {
				imp.Name = ast.NewIdent("sync")
			}
			imp.Path = &ast.BasicLit{Kind: token.STRING, Value: strconv.Quote(ShimPath)}
			imp.EndPos = 0
			rw.changed = true
			rw.counts["import-sync"]++
		}
		if p == "sync/atomic" {
			rw.counts["import-sync/atomic (operations get a scheduling point)"]++
		}
	}
	// const -> var
	if len(constSet) > 0 {
		rw.constToVar(f, constSet)
	}
	pre := func(c *astutil.Cursor) bool {
		if fl, ok := c.Node().(*ast.FuncLit); ok {
			rw.funcLits = append(rw.funcLits, fl)
		}
		switch n := c.Node().(type) {
		case *ast.SelectStmt:
			for _, cl := range n.Body.List {
				cc := cl.(*ast.CommClause)
				switch s := cc.Comm.(type) {
				case *ast.SendStmt:
					rw.skip[s] = true
				case *ast.ExprStmt:
					rw.skip[unparen(s.X)] = true
				case *ast.AssignStmt:
					rw.skip[unparen(s.Rhs[0])] = true
				}
			}
		case *ast.AssignStmt:
			for _, l := range n.Lhs {
				rw.lhs[unparen(l)] = true
			}
		case *ast.IncDecStmt:
			rw.lhs[unparen(n.X)] = true
		}
		return true
	}
	post := func(c *astutil.Cursor) bool {
		if ferr != nil {
			return false
		}
		if fl, ok := c.Node().(*ast.FuncLit); ok && len(rw.funcLits) > 0 && rw.funcLits[len(rw.funcLits)-1] == fl {
			rw.funcLits = rw.funcLits[:len(rw.funcLits)-1]
		}
		switch n := c.Node().(type) {
		case *ast.Ident:
			if rep := rw.identHook(n, c); rep != nil {
				c.Replace(rep)
			}
		case *ast.GoStmt:
			c.Replace(rw.goStmt(n))
		case *ast.SendStmt:
			if rw.skip[n] {
				return true
			}
			rw.counts["send"]++
			c.Replace(&ast.ExprStmt{X: rw.call("Send", n.Chan, n.Value)})
		case *ast.UnaryExpr:
			if n.Op != token.ARROW || rw.skip[n] {
				return true
			}
			rw.counts["recv"]++
			name := "Recv"
			switch p := c.Parent().(type) {
			case *ast.AssignStmt:
				if len(p.Lhs) == 2 && len(p.Rhs) == 1 {
					name = "Recv2"
				}
			case *ast.ValueSpec:
				if len(p.Names) == 2 && len(p.Values) == 1 {
					name = "Recv2"
				}
			}
			nc := rw.call(name, n.X)
			if t := rw.typeOf(n); t != nil {
				rw.typeOv[nc] = t
			}
			c.Replace(nc)
		case *ast.CallExpr:
			if rw.isAtomicCall(n) {
				switch c.Parent().(type) {
				case *ast.DeferStmt, *ast.GoStmt:
					rw.counts["WARNING-atomic-in-defer-or-go-not-instrumented"]++
				case *ast.ExprStmt:
					rw.counts["atomic"]++
					c.Replace(rw.call("AtomicV", &ast.FuncLit{Type: &ast.FuncType{Params: &ast.FieldList{}}, Body: &ast.BlockStmt{List: []ast.Stmt{&ast.ExprStmt{X: n}}}}))
				default:
					rw.counts["atomic"]++
					nc := rw.call("AtomicAfter", n)
					if t := rw.typeOf(n); t != nil {
						rw.typeOv[nc] = t
					}
					c.Replace(nc)
				}
				return true
			}
			if rw.isSysMethod(n) {
				// entry.Info() -> vsched.SysArg(entry).Info()
				switch c.Parent().(type) {
				case *ast.DeferStmt, *ast.GoStmt:
					// (deferred Close etc.: the receiver is evaluated at the defer statement - no point there)
				default:
					rw.counts["sysmethod"]++
					sel := n.Fun.(*ast.SelectorExpr)
					x := sel.X
					nc := rw.call("SysArg", x)
					if t := rw.typeOf(x); t != nil {
						rw.typeOv[nc] = t
					}
					sel.X = nc
					return true
				}
			}
			if rw.isSysCall(n) {
				// os.Mkdir(p, m) -> os.Mkdir(vsched.SysArg(p), m): a scheduling point right before the call
				rw.counts["syscall"]++
				a0 := n.Args[0]
				nc := rw.call("SysArg", a0)
				if t := rw.typeOf(a0); t != nil {
					rw.typeOv[nc] = t
				}
				n.Args[0] = nc
				return true
			}
			switch {
			case rw.isBuiltin(n.Fun, "close") && len(n.Args) == 1:
				rw.counts["close"]++
				n.Fun = rw.vs("Close")
			case rw.isBuiltin(n.Fun, "len") && len(n.Args) == 1 && isChan(rw.typeOf(n.Args[0])):
				rw.counts["len-chan"]++
				n.Fun = rw.vs("Len")
			case rw.isBuiltin(n.Fun, "len") && len(n.Args) == 1 && isMap(rw.typeOf(n.Args[0])):
				rw.counts["len-map"]++
				n.Args[0] = rw.mapHook("MR", n.Args[0], n)
			case rw.isBuiltin(n.Fun, "delete") && len(n.Args) == 2:
				rw.counts["delete-map"]++
				n.Args[0] = rw.mapHook("MW", n.Args[0], n)
			case rw.isPkgSel(n.Fun, "runtime/debug", "Stack") && strings.HasSuffix(rw.pkg.PkgPath, "varutil/goaterr"):
				// goaterr records a full stack trace in every error value (77% of the run time of the
				// filespace checks); the trace text is not observable by any property
				rw.counts["goaterr-stack-elided"]++
				n.Fun = rw.vs("ElidedStack")
			case rw.isPkgSel(n.Fun, "runtime", "Gosched"):
				rw.counts["gosched"]++
				n.Fun = rw.vs("Yield")
			case rw.isPkgSel(n.Fun, "context", "WithCancel"):
				rw.counts["ctx"]++
				n.Fun = rw.vs("CtxWithCancel")
			case rw.isPkgSel(n.Fun, "context", "WithDeadline"):
				rw.counts["ctx"]++
				n.Fun = rw.vs("CtxWithDeadline")
			case rw.isPkgSel(n.Fun, "context", "WithTimeout"):
				rw.counts["ctx"]++
				n.Fun = rw.vs("CtxWithTimeout")
			case rw.isPkgSel(n.Fun, "time", "Sleep"), rw.isPkgSel(n.Fun, "time", "After"), rw.isPkgSel(n.Fun, "time", "NewTimer"), rw.isPkgSel(n.Fun, "time", "AfterFunc"), rw.isPkgSel(n.Fun, "time", "Tick"), rw.isPkgSel(n.Fun, "time", "NewTicker"):
				rw.counts["WARNING-timer-not-modelled:"+rw.relFile]++
			}
		case *ast.SelectorExpr:
			if rep := rw.fieldHook(n, c); rep != nil {
				c.Replace(rep)
			}
		case *ast.IndexExpr:
			if isMap(rw.typeOf(n.X)) {
				t := rw.typeOf(n)
				if rw.lhs[n] {
					rw.counts["map-write"]++
					n.X = rw.mapHook("MW", n.X, n)
				} else {
					rw.counts["map-read"]++
					n.X = rw.mapHook("MR", n.X, n)
				}
				_ = t
			}
		case *ast.RangeStmt:
			t := rw.typeOf(n.X)
			if isChan(t) {
				ferr = fmt.Errorf("line %d: range over channel is not supported by the instrumenter", rw.fset.Position(n.Pos()).Line)
				return false
			}
			if isMap(t) {
				rw.counts["range-map"]++
				c.Replace(rw.rangeMap(n))
			}
		case *ast.SelectStmt:
			if _, ok := c.Parent().(*ast.LabeledStmt); ok {
				ferr = fmt.Errorf("line %d: labeled select is not supported by the instrumenter", rw.fset.Position(n.Pos()).Line)
				return false
			}
			rw.counts["select"]++
			c.Replace(rw.selectStmt(n))
		}
		return true
	}
	astutil.Apply(f, pre, post)
	if ferr != nil {
		return ferr
	}
	if rw.needVS {
		astutil.AddNamedImport(rw.fset, f, "vsched", ShimPath)
	}
	if rw.changed {
		for _, p := range []string{"runtime", "context", "time", "runtime/debug"} {
			if importsPath(f, p) && !astutil.UsesImport(f, p) {
				astutil.DeleteImport(rw.fset, f, p)
			}
		}
	}
	return nil
}

func importsPath(f *ast.File, p string) bool {
	for _, imp := range f.Imports {
		if v, _ := strconv.Unquote(imp.Path.Value); v == p && imp.Name == nil {
			return true
		}
	}
	return false
}

func unparen(e ast.Expr) ast.Expr {
	for {
		p, ok := e.(*ast.ParenExpr)
		if !ok {
			return e
		}
		e = p.X
	}
}

func (rw *rewriter) mapHook(fn string, m ast.Expr, at ast.Node) ast.Expr {
	nc := rw.call(fn, m, rw.site(at, exprText(rw.fset, m)))
	if t := rw.typeOf(m); t != nil {
		rw.typeOv[nc] = t
	}
	return nc
}

// fieldHook wraps reads/writes of multi-word struct fields (slice, string, interface) for the
// happens-before race oracle: x.f  ->  (*vsched.Rd(&x.f, "site")).
func (rw *rewriter) fieldHook(n *ast.SelectorExpr, c *astutil.Cursor) ast.Expr {
	sel, ok := rw.info.Selections[n]
	if !ok || sel.Kind() != types.FieldVal {
		return nil
	}
	t := sel.Type()
	if t == nil {
		return nil
	}
	switch u := t.Underlying().(type) {
	case *types.Slice, *types.Interface:
	case *types.Basic:
		if u.Info()&types.IsString == 0 {
			return nil
		}
	default:
		return nil
	}
	tv, ok := rw.info.Types[n]
	if !ok || !tv.Addressable() {
		return nil
	}
	// not when the address is taken, not as a composite-literal key, not on the left of :=
	switch p := c.Parent().(type) {
	case *ast.UnaryExpr:
		if p.Op == token.AND {
			return nil
		}
	case *ast.KeyValueExpr:
		if p.Key == n {
			return nil
		}
	case *ast.SelectorExpr:
		// x.f.g where we are x.f: fine (read)
	}
	fn := "Rd"
	if rw.lhs[n] {
		fn = "Wr"
		rw.counts["field-write"]++
	} else {
		rw.counts["field-read"]++
	}
	addr := &ast.UnaryExpr{Op: token.AND, X: n}
	call := rw.call(fn, addr, rw.site(n, exprText(rw.fset, n)))
	out := &ast.ParenExpr{X: &ast.StarExpr{X: call}}
	rw.typeOv[out] = t
	return out
}

// identHook instruments accesses to multi-word variables that more than one goroutine can reach
// without passing them: package-level variables and variables captured by a function literal
// (a local hoisted out of a callback becomes shared between the goroutines that run the callback).
func (rw *rewriter) identHook(n *ast.Ident, c *astutil.Cursor) ast.Expr {
	v, ok := rw.info.Uses[n].(*types.Var)
	if !ok || v.IsField() || v.Pkg() == nil || v.Pkg() != rw.pkg.Types {
		return nil
	}
	switch u := v.Type().Underlying().(type) {
	case *types.Slice, *types.Interface:
	case *types.Basic:
		if u.Info()&types.IsString == 0 {
			return nil
		}
	default:
		return nil
	}
	shared := v.Parent() == rw.pkg.Types.Scope()
	if !shared && len(rw.funcLits) > 0 {
		fl := rw.funcLits[len(rw.funcLits)-1]
		shared = v.Pos() < fl.Pos() || v.Pos() > fl.End()
	}
	if !shared {
		return nil
	}
	switch p := c.Parent().(type) {
	case *ast.UnaryExpr:
		if p.Op == token.AND {
			return nil
		}
	case *ast.KeyValueExpr:
		if p.Key == n {
			return nil
		}
	case *ast.SelectorExpr:
		if p.Sel == n {
			return nil
		}
	case *ast.AssignStmt:
		if p.Tok == token.DEFINE {
			for _, l := range p.Lhs {
				if l == n {
					return nil
				}
			}
		}
	case *ast.RangeStmt:
		if p.Key == n || p.Value == n {
			return nil
		}
	case *ast.Field, *ast.ValueSpec, *ast.LabeledStmt, *ast.BranchStmt:
		return nil
	}
	fn := "Rd"
	if rw.lhs[n] {
		fn = "Wr"
		rw.counts["shared-var-write"]++
	} else {
		rw.counts["shared-var-read"]++
	}
	addr := &ast.UnaryExpr{Op: token.AND, X: n}
	call := rw.call(fn, addr, rw.site(n, n.Name))
	out := &ast.ParenExpr{X: &ast.StarExpr{X: call}}
	rw.typeOv[out] = v.Type()
	return out
}

func (rw *rewriter) isConstOrNil(e ast.Expr) bool {
	tv, ok := rw.info.Types[e]
	if !ok {
		return false
	}
	if tv.Value != nil && tv.Value.Kind() != constant.Unknown {
		return true
	}
	return tv.IsNil()
}

func (rw *rewriter) goStmt(n *ast.GoStmt) ast.Stmt {
	rw.counts["go"]++
	call := n.Call
	if fl, ok := call.Fun.(*ast.FuncLit); ok && len(call.Args) == 0 {
		return &ast.ExprStmt{X: rw.call("Go", fl)}
	}
	var stmts []ast.Stmt
	fv := rw.newTmp("f")
	stmts = append(stmts, &ast.AssignStmt{Lhs: []ast.Expr{fv}, Tok: token.DEFINE, Rhs: []ast.Expr{call.Fun}})
	var args []ast.Expr
	for _, a := range call.Args {
		if rw.isConstOrNil(a) {
			args = append(args, a)
			continue
		}
		av := rw.newTmp("a")
		stmts = append(stmts, &ast.AssignStmt{Lhs: []ast.Expr{av}, Tok: token.DEFINE, Rhs: []ast.Expr{a}})
		args = append(args, av)
	}
	inner := &ast.CallExpr{Fun: fv, Args: args, Ellipsis: call.Ellipsis}
	if call.Ellipsis != token.NoPos {
		inner.Ellipsis = 1
	}
	lit := &ast.FuncLit{Type: &ast.FuncType{Params: &ast.FieldList{}}, Body: &ast.BlockStmt{List: []ast.Stmt{&ast.ExprStmt{X: inner}}}}
	stmts = append(stmts, &ast.ExprStmt{X: rw.call("Go", lit)})
	return &ast.BlockStmt{List: stmts}
}

func (rw *rewriter) rangeMap(n *ast.RangeStmt) ast.Stmt {
	it := rw.newTmp("it")
	init := &ast.AssignStmt{Lhs: []ast.Expr{it}, Tok: token.DEFINE, Rhs: []ast.Expr{rw.call("MapIter", n.X, rw.site(n, exprText(rw.fset, n.X)))}}
	cond := &ast.CallExpr{Fun: &ast.SelectorExpr{X: it, Sel: ast.NewIdent("Next")}}
	var lhs, rhs []ast.Expr
	isBlank := func(e ast.Expr) bool {
		id, ok := e.(*ast.Ident)
		return e == nil || (ok && id.Name == "_")
	}
	if !isBlank(n.Key) {
		lhs = append(lhs, n.Key)
		rhs = append(rhs, &ast.SelectorExpr{X: it, Sel: ast.NewIdent("K")})
	}
	if !isBlank(n.Value) {
		lhs = append(lhs, n.Value)
		rhs = append(rhs, &ast.SelectorExpr{X: it, Sel: ast.NewIdent("V")})
	}
	body := &ast.BlockStmt{}
	if len(lhs) > 0 {
		body.List = append(body.List, &ast.AssignStmt{Lhs: lhs, Tok: n.Tok, Rhs: rhs})
	}
	body.List = append(body.List, n.Body.List...)
	return &ast.ForStmt{Init: init, Cond: cond, Body: body}
}

func (rw *rewriter) selectStmt(n *ast.SelectStmt) ast.Stmt {
	var decls []ast.Stmt
	var caseVars []ast.Expr
	sw := &ast.SwitchStmt{Body: &ast.BlockStmt{}}
	hasDefault := false
	idx := 0
	for _, cl := range n.Body.List {
		cc := cl.(*ast.CommClause)
		if cc.Comm == nil {
			hasDefault = true
			sw.Body.List = append(sw.Body.List, &ast.CaseClause{List: nil, Body: cc.Body})
			continue
		}
		cv := rw.newTmp("s")
		var body []ast.Stmt
		switch s := cc.Comm.(type) {
		case *ast.SendStmt:
			decls = append(decls, &ast.AssignStmt{Lhs: []ast.Expr{cv}, Tok: token.DEFINE, Rhs: []ast.Expr{rw.call("SendCase", s.Chan, s.Value)}})
		case *ast.ExprStmt:
			u := unparen(s.X).(*ast.UnaryExpr)
			decls = append(decls, &ast.AssignStmt{Lhs: []ast.Expr{cv}, Tok: token.DEFINE, Rhs: []ast.Expr{rw.call("RecvCase", u.X)}})
		case *ast.AssignStmt:
			u := unparen(s.Rhs[0]).(*ast.UnaryExpr)
			decls = append(decls, &ast.AssignStmt{Lhs: []ast.Expr{cv}, Tok: token.DEFINE, Rhs: []ast.Expr{rw.call("RecvCase", u.X)}})
			rhs := []ast.Expr{&ast.SelectorExpr{X: cv, Sel: ast.NewIdent("V")}}
			if len(s.Lhs) == 2 {
				rhs = append(rhs, &ast.SelectorExpr{X: cv, Sel: ast.NewIdent("Ok")})
			}
			body = append(body, &ast.AssignStmt{Lhs: s.Lhs, Tok: s.Tok, Rhs: rhs})
		}
		caseVars = append(caseVars, cv)
		body = append(body, cc.Body...)
		sw.Body.List = append(sw.Body.List, &ast.CaseClause{List: []ast.Expr{&ast.BasicLit{Kind: token.INT, Value: strconv.Itoa(idx)}}, Body: body})
		idx++
	}
	// unreachable keeps the rewritten statement a terminating statement whenever the select was one
	// (a function may end in a select whose every case returns).
	unreachable := &ast.ExprStmt{X: &ast.CallExpr{Fun: ast.NewIdent("panic"), Args: []ast.Expr{&ast.BasicLit{Kind: token.STRING, Value: `"vsched: select without a chosen case"`}}}}
	if len(caseVars) == 0 && !hasDefault {
		return &ast.BlockStmt{List: []ast.Stmt{&ast.ExprStmt{X: rw.call("Block")}, unreachable}}
	}
	def := "false"
	if hasDefault {
		def = "true"
	} else {
		sw.Body.List = append(sw.Body.List, &ast.CaseClause{List: nil, Body: []ast.Stmt{unreachable}})
	}
	args := append([]ast.Expr{ast.NewIdent(def)}, caseVars...)
	sw.Tag = rw.call("Select", args...)
	return &ast.BlockStmt{List: append(decls, sw)}
}

func (rw *rewriter) constToVar(f *ast.File, set map[string]bool) {
	rel := strings.TrimPrefix(rw.pkg.PkgPath, "github.com/goatcms/goatcore/")
	var added []ast.Decl
	for _, d := range f.Decls {
		gd, ok := d.(*ast.GenDecl)
		if !ok || gd.Tok != token.CONST {
			continue
		}
		var keep []ast.Spec
		for _, s := range gd.Specs {
			vs := s.(*ast.ValueSpec)
			if len(vs.Names) == 1 && len(vs.Values) == 1 && set[rel+"."+vs.Names[0].Name] {
				added = append(added, &ast.GenDecl{Tok: token.VAR, Specs: []ast.Spec{&ast.ValueSpec{Names: vs.Names, Type: vs.Type, Values: vs.Values}}})
				rw.changed = true
				rw.counts["const-to-var"]++
				continue
			}
			keep = append(keep, s)
		}
		gd.Specs = keep
	}
	if len(added) > 0 {
		var decls []ast.Decl
		for _, d := range f.Decls {
			if gd, ok := d.(*ast.GenDecl); ok && gd.Tok == token.CONST && len(gd.Specs) == 0 {
				continue
			}
			decls = append(decls, d)
		}
		f.Decls = append(decls, added...)
	}
}
