// Package treefs is the reference model shared by the filespace checks (C01-C07):
// a plain rooted tree of named nodes plus the result-class table of DESIGN.md 2.6.
package treefs

import (
	"sort"
	"strings"
)

// Node is a directory (Kids != nil) or a file.
type Node struct {
	Dir  bool
	Data string
	Kids map[string]*Node
}

// NewDir returns an empty directory node.
func NewDir() *Node { return &Node{Dir: true, Kids: map[string]*Node{}} }

// Clone deep-copies a subtree.
func (n *Node) Clone() *Node {
	if n == nil {
		return nil
	}
	c := &Node{Dir: n.Dir, Data: n.Data}
	if n.Dir {
		c.Kids = map[string]*Node{}
		for k, v := range n.Kids {
			c.Kids[k] = v.Clone()
		}
	}
	return c
}

// Key is the canonical snapshot of a subtree: sorted "path=dir" / "path=file:<data>" lines.
func (n *Node) Key() string {
	var l []string
	n.flat("", &l)
	sort.Strings(l)
	return strings.Join(l, "\n")
}

func (n *Node) flat(prefix string, out *[]string) {
	for name, k := range n.Kids {
		p := prefix + name
		if k.Dir {
			*out = append(*out, p+"/")
			k.flat(p+"/", out)
		} else {
			*out = append(*out, p+"="+k.Data)
		}
	}
}

// Flat returns path -> "dir" | "file:<data>" for every node below n.
func (n *Node) Flat() map[string]string {
	m := map[string]string{}
	var walk func(prefix string, d *Node)
	walk = func(prefix string, d *Node) {
		for name, k := range d.Kids {
			p := prefix + name
			if k.Dir {
				m[p] = "dir"
				walk(p+"/", k)
			} else {
				m[p] = "file:" + k.Data
			}
		}
	}
	walk("", n)
	return m
}

// Norm splits a path into clean segments. escaped reports that a ".." tried to climb above
// the start; the returned segments are then those of the clamped path.
func Norm(p string) (segs []string, escaped bool) {
	for _, s := range strings.Split(p, "/") {
		switch s {
		case "", ".":
		case "..":
			if len(segs) == 0 {
				escaped = true
			} else {
				segs = segs[:len(segs)-1]
			}
		default:
			segs = append(segs, s)
		}
	}
	return
}

// Lookup returns the node at segs (nil if missing) .
func (n *Node) Lookup(segs []string) *Node {
	cur := n
	for _, s := range segs {
		if cur == nil || !cur.Dir {
			return nil
		}
		cur = cur.Kids[s]
	}
	return cur
}

// fileOnChain reports whether some proper prefix of segs (or, if incl, segs itself) is a file.
func (n *Node) fileOnChain(segs []string, incl bool) bool {
	cur := n
	for i, s := range segs {
		if !cur.Dir {
			return true
		}
		nx := cur.Kids[s]
		if nx == nil {
			return false
		}
		if !nx.Dir && (i < len(segs)-1 || incl) {
			return true
		}
		cur = nx
	}
	return false
}

// mkParents creates the directories for segs (all of them).
func (n *Node) mkdirs(segs []string) *Node {
	cur := n
	for _, s := range segs {
		nx := cur.Kids[s]
		if nx == nil {
			nx = NewDir()
			cur.Kids[s] = nx
		}
		cur = nx
	}
	return cur
}

// Class of an expected outcome.
type Class int

const (
	MustOK      Class = iota // must succeed with the given effect/result
	MustFail                 // must return an error, tree unchanged
	Either                   // error-and-unchanged OR success with the given effect
	Unspecified              // only the frame condition applies (no panic, nothing outside the addressed subtrees changes)
)

func (c Class) String() string {
	return [...]string{"MUST-OK", "MUST-FAIL", "EITHER", "UNSPECIFIED"}[c]
}

// Op is one filespace operation.
type Op struct {
	Kind   string   `json:"kind"`
	P      string   `json:"p"`
	Q      string   `json:"q,omitempty"`
	Data   string   `json:"data,omitempty"`
	Chunks []string `json:"chunks,omitempty"`
	Via    string   `json:"via,omitempty"` // Writer: "" = Write per chunk, "copy" = io.Copy from a reader (ReaderFrom path), "string" = io.WriteString
	Buf    int      `json:"buf,omitempty"`
	View   []string `json:"view,omitempty"` // chain of Filespace(sub) calls the op is issued through
}

// Expect is the model's verdict for an op on a tree.
type Expect struct {
	Class  Class
	After  *Node    // tree after a successful op (nil for pure reads: unchanged)
	Data   string   // ReadFile/Reader
	List   []string // ReadDir: sorted "name/" for dirs, "name" for files
	Size   int      // Lstat of a file: length of its content
	Bool   bool     // IsExist/IsFile/IsDir
	BoolAlt []bool  // acceptable answers (escape paths)
	Name   string   // Lstat
	IsDir  bool     // Lstat
	Touched [][]string // subtrees the op may legitimately change (frame condition)
	Why    string
}

// ViewRoot resolves a view chain to the segments of its root; ok=false when a view
// creation itself must fail (escape).
func ViewRoot(view []string) (segs []string, ok bool) {
	for _, v := range view {
		s, esc := Norm(v)
		if esc {
			return nil, false
		}
		segs = append(segs, s...)
	}
	return segs, true
}

// resolve maps an op path issued through a view to absolute segments.
func resolve(root []string, p string) (abs []string, escaped bool) {
	s, esc := Norm(p)
	abs = append(append([]string{}, root...), s...)
	return abs, esc
}

// Apply computes the expectation for op on tree t (t is not modified).
func Apply(t *Node, op Op) Expect {
	root, vok := ViewRoot(op.View)
	if !vok {
		return Expect{Class: MustFail, Why: "view creation climbs above the root"}
	}
	e := apply(t, root, op)
	return e
}

func apply(t *Node, root []string, op Op) Expect {
	p, pesc := resolve(root, op.P)
	rel := p[len(root):]
	escapeClass := func(e Expect) Expect {
		// an escaping path: error-unchanged, or the outcome for the clamped path
		if e.Class == MustOK {
			e.Class = Either
		}
		e.Why += " (path climbs above the view root: error or clamped outcome)"
		return e
	}
	wrap := func(e Expect, esc bool) Expect {
		if esc {
			return escapeClass(e)
		}
		return e
	}
	node := t.Lookup(p)
	if len(rel) == 0 && len(root) > 0 {
		switch op.Kind {
		case "WriteFile", "Writer", "Remove", "RemoveAll":
			// the statement does not say what addressing a child view's own root node with a
			// mutating operation means; only the frame condition is required.
			return Expect{Class: Unspecified, Touched: [][]string{root}, Why: "mutating the view's own root node is unspecified"}
		}
	}
	switch op.Kind {
	case "ReadDir":
		if node != nil && node.Dir {
			var l []string
			for name, k := range node.Kids {
				if k.Dir {
					l = append(l, name+"/")
				} else {
					l = append(l, name)
				}
			}
			sort.Strings(l)
			return wrap(Expect{Class: MustOK, List: l, Why: "listing of an existing directory"}, pesc)
		}
		return Expect{Class: MustFail, Why: "ReadDir of a missing node or a file"}
	case "IsExist", "IsFile", "IsDir":
		v := node != nil
		if op.Kind == "IsFile" {
			v = node != nil && !node.Dir
		}
		if op.Kind == "IsDir" {
			v = node != nil && node.Dir
		}
		e := Expect{Class: MustOK, Bool: v, BoolAlt: []bool{v}, Why: "query agrees with the tree"}
		if pesc {
			e.BoolAlt = []bool{false, v}
			e.Why += " (escaping path: false or clamped answer)"
		}
		return e
	case "Lstat":
		if node != nil {
			name := ""
			if len(p) > 0 {
				name = p[len(p)-1]
			}
			if len(rel) == 0 {
				name = "" // root of the view: name unspecified
			}
			return wrap(Expect{Class: MustOK, Name: name, IsDir: node.Dir, Size: len(node.Data), Why: "stat of an existing node"}, pesc)
		}
		return Expect{Class: MustFail, Why: "stat of a missing node"}
	case "ReadFile", "Reader":
		if node != nil && !node.Dir {
			return wrap(Expect{Class: MustOK, Data: node.Data, Why: "read of an existing file"}, pesc)
		}
		return Expect{Class: MustFail, Why: "read of a missing node or a directory"}
	case "WriteFile", "Writer":
		data := op.Data
		if op.Kind == "Writer" {
			data = strings.Join(op.Chunks, "")
		}
		if len(rel) == 0 || t.fileOnChain(p, false) || (node != nil && node.Dir) {
			return Expect{Class: MustFail, Why: "write to the root, below a file, or onto a directory"}
		}
		a := t.Clone()
		a.mkdirs(p[:len(p)-1]).Kids[p[len(p)-1]] = &Node{Data: data}
		return wrap(Expect{Class: MustOK, After: a, Touched: [][]string{p}, Why: "write creates parents and replaces content"}, pesc)
	case "MkdirAll":
		if t.fileOnChain(p, true) {
			return Expect{Class: MustFail, Why: "mkdir through or onto a file"}
		}
		a := t.Clone()
		a.mkdirs(p)
		return wrap(Expect{Class: MustOK, After: a, Touched: [][]string{p}, Why: "mkdir creates the chain, idempotent on existing directories"}, pesc)
	case "Remove":
		if node == nil || len(rel) == 0 {
			return Expect{Class: Either, After: t.Clone(), Why: "remove of a missing node or of the root: error or no-op, tree unchanged"}
		}
		if node.Dir && len(node.Kids) > 0 {
			return Expect{Class: MustFail, Why: "remove of a non-empty directory"}
		}
		a := t.Clone()
		delete(a.Lookup(p[:len(p)-1]).Kids, p[len(p)-1])
		return wrap(Expect{Class: MustOK, After: a, Touched: [][]string{p}, Why: "remove deletes a file or an empty directory"}, pesc)
	case "RemoveAll":
		if node == nil || len(rel) == 0 {
			return Expect{Class: Either, After: t.Clone(), Why: "recursive remove of a missing node or the root: unchanged"}
		}
		a := t.Clone()
		delete(a.Lookup(p[:len(p)-1]).Kids, p[len(p)-1])
		return wrap(Expect{Class: MustOK, After: a, Touched: [][]string{p}, Why: "recursive remove deletes the subtree"}, pesc)
	case "CopyFile", "CopyDirectory", "Copy":
		q, qesc := resolve(root, op.Q)
		qrel := q[len(root):]
		dst := t.Lookup(q)
		wantDir := op.Kind == "CopyDirectory"
		if node == nil {
			return Expect{Class: MustFail, Why: "copy of a missing source"}
		}
		if op.Kind == "CopyFile" && node.Dir {
			return Expect{Class: MustFail, Why: "CopyFile of a directory"}
		}
		if wantDir && !node.Dir {
			return Expect{Class: MustFail, Why: "CopyDirectory of a file"}
		}
		touched := [][]string{q}
		if len(qrel) == 0 || dst != nil || t.fileOnChain(q, false) || isPrefix(p, q) {
			// destination exists / is the root / below a file / inside the source: unspecified
			return Expect{Class: Unspecified, Touched: touched, Why: "copy onto an existing destination, the root, below a file or into the source is unspecified"}
		}
		a := t.Clone()
		parentMissing := t.Lookup(q[:len(q)-1]) == nil
		a.mkdirs(q[:len(q)-1]).Kids[q[len(q)-1]] = node.Clone()
		e := Expect{Class: MustOK, After: a, Touched: touched, Why: "copy is a deep copy into an absent destination"}
		if parentMissing {
			e.Class = Either
			e.Why = "destination parent missing: error or parents created"
		}
		return wrap(e, pesc || qesc)
	}
	return Expect{Class: Unspecified, Why: "unknown op"}
}

func isPrefix(a, b []string) bool {
	if len(a) > len(b) {
		return false
	}
	for i := range a {
		if a[i] != b[i] {
			return false
		}
	}
	return true
}

// FrameOK checks the frame condition: before and after agree everywhere outside the touched subtrees.
func FrameOK(before, after map[string]string, touched [][]string) (bool, string) {
	return frameOK(before, after, touched, true)
}

// FrameStrict is FrameOK without the allowance for newly created ancestors of a touched path.
func FrameStrict(before, after map[string]string, touched [][]string) (bool, string) {
	return frameOK(before, after, touched, false)
}

func frameOK(before, after map[string]string, touched [][]string, parentsMayAppear bool) (bool, string) {
	inTouched := func(path string) bool {
		for _, t := range touched {
			tp := strings.Join(t, "/")
			if tp == "" || path == tp || strings.HasPrefix(path, tp+"/") {
				return true
			}
			// parents of a touched path may be created
			if parentsMayAppear && strings.HasPrefix(tp, path+"/") {
				return true
			}
		}
		return false
	}
	for p, v := range before {
		if inTouched(p) {
			continue
		}
		if after[p] != v {
			return false, p + ": " + v + " -> " + after[p]
		}
	}
	for p, v := range after {
		if inTouched(p) {
			continue
		}
		if _, ok := before[p]; !ok {
			return false, p + ": (absent) -> " + v
		}
	}
	return true, ""
}
