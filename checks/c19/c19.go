// Package c19 decides C19: template providers (layered definitions, isolated views,
// cache-transparent, usable concurrently from the first use on). Engine: exhaustive
// enumeration of request sequences x configurations against a reference renderer built
// directly on html/template and text/template, plus preemption-bounded schedule exploration
// of concurrent first requests with the happens-before race oracle.
package c19

import (
	"bytes"
	"encoding/json"
	"fmt"
	htmpl "html/template"
	"sort"
	"strings"
	ttmpl "text/template"

	"github.com/goatcms/goatcore/filesystem"
	"github.com/goatcms/goatcore/filesystem/filespace/memfs"
	"github.com/goatcms/goatcore/goathtml/ghprovider"
	"github.com/goatcms/goatcore/goattext/gtprovider"
	"github.com/goatcms/goatcore/zzverif/vsched"

	"verif/explore"
	"verif/fsx"
	"verif/fw"
)

// ---- template file sets ----

func files(ext string, helpers bool) map[string]string {
	f := map[string]string{
		"layouts/default/main" + ext: `{{define "page"}}<{{template "title" .}}|{{template "content" .}}|{{template "h" .}}>{{end}}{{define "title"}}T-default{{end}}{{define "content"}}C-default{{end}}`,
		"layouts/alt/main" + ext:     `{{define "page"}}ALT<{{template "title" .}}|{{template "content" .}}|{{template "h" .}}>{{end}}{{define "title"}}T-alt{{end}}{{define "content"}}C-alt{{end}}{{define "h"}}H-alt{{end}}`,
		"views/v1/a" + ext:           `{{define "title"}}T-v1{{end}}{{define "extra"}}X-v1{{end}}`,
		"views/v2/a" + ext:           `{{define "content"}}C-v2[{{.}}]{{end}}`,
		"views/v2/sub/b" + ext:       `{{define "extra2"}}X2{{end}}{{define "h"}}H-v2{{end}}`,
		"views/v2/readme.txt":        `not a template {{`,
		// directories with unusual names ("any names"): dot-prefixed, blank inside, upper case
		"views/v1/.partials/p" + ext:     `{{define "dotview"}}DV{{end}}`,
		"layouts/default/.parts/q" + ext: `{{define "dotlayout"}}DL{{end}}`,
		"layouts/alt/Sub Dir/r" + ext:    `{{define "spacedlayout"}}SL{{end}}`,
	}
	// nested layout and view names: ("a","b/c") and ("a/b","c") spell the same path when joined
	f["layouts/a/x"+ext] = `{{define "xa"}}XA{{end}}`
	f["layouts/a/b/main"+ext] = `{{define "page"}}AB<{{template "title" .}}|{{template "content" .}}|{{template "h" .}}>{{end}}{{define "title"}}T-ab{{end}}{{define "content"}}C-ab{{end}}{{define "h"}}H-ab{{end}}`
	f["views/b/c/v"+ext] = `{{define "content"}}C-view-b/c{{end}}`
	f["views/c/v"+ext] = `{{define "content"}}C-view-c{{end}}{{define "title"}}T-view-c{{end}}`
	// a view with a file that does not parse
	f["views/bad/x"+ext] = `{{define "content"}}C-bad{{end}}{{if}}`
	if helpers {
		f["helpers/h"+ext] = `{{define "h"}}H[{{.}}]{{template "h2" .}}{{end}}`
		f["helpers/sub/h2"+ext] = `{{define "h2"}}(h2){{end}}`
		f["helpers/.shared/s"+ext] = `{{define "dothelper"}}DH{{end}}`
	} else {
		// without helpers the layouts must define h themselves
		f["layouts/default/h"+ext] = `{{define "h"}}H-layout{{end}}`
	}
	return f
}

// Request to a provider.
type Request struct {
	Kind   string `json:"kind"` // base | layout | view
	Layout string `json:"layout,omitempty"`
	View   string `json:"view,omitempty"`
}

func (r Request) String() string {
	switch r.Kind {
	case "base":
		return "Base()"
	case "layout":
		return fmt.Sprintf("Layout(%q)", r.Layout)
	}
	return fmt.Sprintf("View(%q,%q)", r.Layout, r.View)
}

var requestPool = []Request{
	{Kind: "base"},
	{Kind: "layout", Layout: "default"}, {Kind: "layout", Layout: "alt"}, {Kind: "layout", Layout: ""},
	{Kind: "view", Layout: "default", View: "v1"}, {Kind: "view", Layout: "default", View: "v2"},
	{Kind: "view", Layout: "alt", View: "v1"}, {Kind: "view", Layout: "", View: "v2"},
	{Kind: "view", Layout: "default", View: "missing"},
}

// nestedPool: layout and view names with a '/' whose concatenations coincide.
var nestedPool = []Request{
	{Kind: "view", Layout: "a", View: "b/c"}, {Kind: "view", Layout: "a/b", View: "c"}, {Kind: "view", Layout: "a", View: "c"},
	{Kind: "layout", Layout: "a"}, {Kind: "layout", Layout: "a/b"},
	{Kind: "view", Layout: "default", View: "bad"},
	// a layout and a view of the same name, only one of which has a directory
	{Kind: "view", Layout: "v2", View: "v2"}, {Kind: "view", Layout: "alt", View: "alt"}, {Kind: "layout", Layout: "v1"}, {Kind: "view", Layout: "default", View: "v1"},
}

// executor abstracts html/text templates.
type executor interface {
	render() (string, string) // rendered "page" (or error text), sorted defined names
}

type hExec struct{ t *htmpl.Template }
type tExec struct{ t *ttmpl.Template }

func (e hExec) render() (string, string) {
	var names []string
	for _, t := range e.t.Templates() {
		names = append(names, t.Name())
	}
	sort.Strings(names)
	if e.t.Lookup("page") == nil {
		return "<no page>", strings.Join(names, ",")
	}
	var b bytes.Buffer
	if err := e.t.ExecuteTemplate(&b, "page", "D"); err != nil {
		return "ERR:" + err.Error(), strings.Join(names, ",")
	}
	return b.String(), strings.Join(names, ",")
}

func (e tExec) render() (string, string) {
	var names []string
	for _, t := range e.t.Templates() {
		names = append(names, t.Name())
	}
	sort.Strings(names)
	if e.t.Lookup("page") == nil {
		return "<no page>", strings.Join(names, ",")
	}
	var b bytes.Buffer
	if err := e.t.ExecuteTemplate(&b, "page", "D"); err != nil {
		return "ERR:" + err.Error(), strings.Join(names, ",")
	}
	return b.String(), strings.Join(names, ",")
}

// provider abstracts the two providers.
type provider interface {
	do(r Request) (executor, error)
}

type hProv struct{ p *ghprovider.Provider }
type tProv struct{ p *gtprovider.Provider }

func (h hProv) do(r Request) (executor, error) {
	var t *htmpl.Template
	var err error
	switch r.Kind {
	case "base":
		t, err = h.p.Base()
	case "layout":
		t, err = h.p.Layout(r.Layout)
	default:
		t, err = h.p.View(r.Layout, r.View)
	}
	if err != nil || t == nil {
		if err == nil {
			err = fmt.Errorf("nil template without error")
		}
		return nil, err
	}
	return hExec{t}, nil
}

func (h tProv) do(r Request) (executor, error) {
	var t *ttmpl.Template
	var err error
	switch r.Kind {
	case "base":
		t, err = h.p.Base()
	case "layout":
		t, err = h.p.Layout(r.Layout)
	default:
		t, err = h.p.View(r.Layout, r.View)
	}
	if err != nil || t == nil {
		if err == nil {
			err = fmt.Errorf("nil template without error")
		}
		return nil, err
	}
	return tExec{t}, nil
}

// Config of a provider under test.
type Config struct {
	HTML    bool `json:"html"`
	Cached  bool `json:"cached"`
	Helpers bool `json:"helpers"`
	Overlap bool `json:"overlapping_definitions,omitempty"`
	// Ext: the configured template file extension ("" = .gohtml / .gotext); any string is a suffix
	Ext string `json:"extension,omitempty"`
}

func (c Config) ext() string {
	if c.Ext != "" {
		return c.Ext
	}
	return ext(c.HTML)
}

func ext(html bool) string {
	if html {
		return ".gohtml"
	}
	return ".gotext"
}

func newFS(cfg Config) filesystem.Filespace {
	fs, _ := memfs.NewFilespace()
	fl := files(cfg.ext(), cfg.Helpers)
	if cfg.Overlap {
		for p, t := range overlapFiles {
			fl[p+cfg.ext()] = t
		}
	}
	var ps []string
	for p := range fl {
		ps = append(ps, p)
	}
	sort.Strings(ps)
	for _, p := range ps {
		fs.WriteFile(p, []byte(fl[p]), 0644)
	}
	return fs
}

func newProvider(cfg Config, fs filesystem.Filespace) provider {
	if cfg.HTML {
		return hProv{ghprovider.NewProvider(fs, "helpers", "layouts/{name}", "views/{name}", cfg.ext(), htmpl.FuncMap{}, cfg.Cached)}
	}
	return tProv{gtprovider.NewProvider(fs, "helpers", "layouts/{name}", "views/{name}", cfg.ext(), ttmpl.FuncMap{}, cfg.Cached)}
}

// reference renders what the statement prescribes, directly with the standard library:
// helpers, then the layout's files, then the view's files, most specific last.
func reference(cfg Config, r Request) (string, string) {
	fl := files(cfg.ext(), cfg.Helpers)
	var order []string
	under := func(dir string) []string {
		var l []string
		for p := range fl {
			if strings.HasPrefix(p, dir+"/") && strings.HasSuffix(p, cfg.ext()) {
				l = append(l, p)
			}
		}
		sort.Strings(l)
		return l
	}
	order = append(order, under("helpers")...)
	layout := r.Layout
	if layout == "" {
		layout = "default"
	}
	if r.Kind != "base" {
		order = append(order, under("layouts/"+layout)...)
	}
	if r.Kind == "view" {
		order = append(order, under("views/"+r.View)...)
	}
	if cfg.HTML {
		t := htmpl.New("baseTemplate")
		for _, p := range order {
			if _, err := t.Parse(fl[p]); err != nil {
				return "REF-ERR:" + err.Error(), ""
			}
		}
		return hExec{t}.render()
	}
	t := ttmpl.New("baseTemplate")
	for _, p := range order {
		if _, err := t.Parse(fl[p]); err != nil {
			return "REF-ERR:" + err.Error(), ""
		}
	}
	return tExec{t}.render()
}

type seqWit struct {
	Config   Config    `json:"config"`
	Requests []Request `json:"requests"`
}

type finding struct{ kind, clause, detail string }

// runSequence issues the requests one after another, rendering each result.
func runSequence(cfg Config, reqs []Request) (outs []string, f *finding) {
	res := fsx.RunSeq(func() {
		p := newProvider(cfg, newFS(cfg))
		for i, r := range reqs {
			ex, err := p.do(r)
			wantOut, wantNames := reference(cfg, r)
			if strings.HasPrefix(wantOut, "REF-ERR:") {
				// a template file of this request does not parse: the request fails - every time, and without
				// consequences for the requests that follow
				if err == nil {
					f = &finding{"broken-template-accepted/" + r.Kind, "a failing template file is reported, not silently skipped", fmt.Sprintf("config %+v, requests %v: request %d %s succeeded although a file of it does not parse (%s)", cfg, reqs, i, r, wantOut)}
					return
				}
				outs = append(outs, "ERROR")
				continue
			}
			if err != nil {
				outs = append(outs, "ERROR")
				f = &finding{"request-failed/" + r.Kind, "asking (again) gives equivalent templates; the result is the same with caching on or off", fmt.Sprintf("config %+v, requests %v: request %d %s failed: %v", cfg, reqs, i, r, err)}
				return
			}
			out, names := ex.render()
			outs = append(outs, out)
			if out != wantOut {
				kind := "wrong-rendering/" + r.Kind
				f = &finding{kind, "a view sees the helper definitions, the definitions of its layout and its own, the more specific layer overriding the more general one; definitions of one view are never visible from another view or from the layout", fmt.Sprintf("config %+v, requests %v: request %d %s rendered %q, the reference renders %q", cfg, reqs, i, r, out, wantOut)}
				return
			}
			if names != wantNames {
				f = &finding{"foreign-definitions/" + r.Kind, "definitions of one view are never visible from another view or from the layout", fmt.Sprintf("config %+v, requests %v: request %d %s has definitions {%s}, the reference has {%s}", cfg, reqs, i, r, names, wantNames)}
				return
			}
		}
	})
	if f == nil && len(res.Panics) > 0 {
		f = &finding{"panic", "no call crashes the process", res.Panics[0].Value}
	}
	if f == nil && (res.Deadlock || res.Horizon) {
		f = &finding{"blocks", "calls return", fmt.Sprint(res.Blocked)}
	}
	return
}

// faultThenRetry: the k-th ReadFile/ReadDir/IsDir of the first request fails; the request is then
// repeated on the same provider with a healthy filespace. Whatever the first call returned, the
// second must be equivalent to the reference (asking twice gives equivalent templates; the cache
// must not keep a half-built template).
func faultThenRetry(cfg Config, r Request, k int) (calls int, f *finding) {
	res := fsx.RunSeq(func() {
		in := &fsx.Injector{Fail: map[int]bool{k: true}}
		ffs := &fsx.FaultFS{Inner: newFS(cfg), In: in, Tag: "fs"}
		p := newProvider(cfg, ffs)
		ex1, err1 := p.do(r)
		calls = in.N
		if k == 0 || len(in.Hits) == 0 {
			return
		}
		in.Fail = map[int]bool{}
		wantOut, wantNames := reference(cfg, r)
		if err1 == nil {
			// a bool query answered "false" can legitimately hide a directory for this one call; an
			// error-returning call that failed must not yield a template that renders differently
			if out, _ := ex1.render(); out != wantOut && !strings.Contains(in.Hits[0], ".Is") {
				f = &finding{"fault-ignored/" + r.Kind, "a failing template file is reported, not silently skipped", fmt.Sprintf("config %+v %s: call %s failed but the request succeeded and renders %q (reference %q)", cfg, r, in.Hits[0], out, wantOut)}
				return
			}
		}
		ex2, err2 := p.do(r)
		if err2 != nil {
			f = &finding{"retry-fails/" + r.Kind, "asking twice gives equivalent templates", fmt.Sprintf("config %+v %s: after a failure at %s the same request on a healthy filespace fails: %v", cfg, r, in.Hits[0], err2)}
			return
		}
		out, names := ex2.render()
		if err1 == nil && strings.Contains(in.Hits[0], ".Is") && cfg.Cached {
			return // the first (successful) answer without the hidden directory may be cached: unspecified
		}
		if out != wantOut || names != wantNames {
			f = &finding{"half-built-template-cached/" + r.Kind, "asking twice gives equivalent templates; the result is the same with caching on or off", fmt.Sprintf("config %+v %s: after a failure at %s the retried request renders %q with {%s}, the reference renders %q with {%s}", cfg, r, in.Hits[0], out, names, wantOut, wantNames)}
		}
	})
	if f == nil && len(res.Panics) > 0 {
		f = &finding{"panic", "no call crashes the process", res.Panics[0].Value}
	}
	if f == nil && (res.Deadlock || res.Horizon) {
		f = &finding{"retry-blocks-forever/" + r.Kind, "asking twice gives equivalent templates (every call returns)", fmt.Sprintf("config %+v %s: after a failure of filespace call #%d during the first request, the same request on the healthy filespace never returned (blocked: %v)", cfg, r, k, res.Blocked)}
	}
	return
}

// ---- concurrent first use ----

// Spec of a concurrent program.
type Spec struct {
	Config  Config      `json:"config"`
	Threads [][]Request `json:"threads"`
	Bound   int         `json:"bound"`
}

type cobs struct {
	errs  []string
	wrong []string
	done  bool
}

var focus = []string{"ghprovider", "gtprovider", "checks/c19"}

func build(sp Spec, o *cobs) func() {
	return func() {
		*o = cobs{}
		p := newProvider(sp.Config, newFS(sp.Config))
		var wg vsched.WaitGroup
		for ti, reqs := range sp.Threads {
			ti, reqs := ti, reqs
			wg.Add(1)
			vsched.Spawn(func() {
				defer wg.Done()
				for _, r := range reqs {
					ex, err := p.do(r)
					if err != nil {
						o.errs = append(o.errs, fmt.Sprintf("T%d %s: %v", ti, r, err))
						continue
					}
					out, _ := ex.render()
					if want, _ := reference(sp.Config, r); out != want {
						o.wrong = append(o.wrong, fmt.Sprintf("T%d %s rendered %q want %q", ti, r, out, want))
					}
				}
			})
		}
		wg.Wait()
		o.done = true
	}
}

func mkProgram(sp Spec) *explore.Program {
	o := &cobs{}
	var tn []string
	for _, t := range sp.Threads {
		var l []string
		for _, r := range t {
			l = append(l, r.String())
		}
		tn = append(tn, strings.Join(l, "+"))
	}
	return &explore.Program{Prop: "C19", Name: fmt.Sprintf("%+v:%s", sp.Config, strings.Join(tn, "|")), Spec: sp,
		Opt:  explore.Options{Bound: sp.Bound, Focus: focus, Race: true, MaxSteps: 20000, HBR: true, NoShard: true},
		Body: build(sp, o),
		Judge: func(x *explore.Exec) *explore.Verdict {
			if !o.done {
				return &explore.Verdict{Kind: "not-finished", Clause: "calls return", Detail: "harness did not finish"}
			}
			if len(o.errs) > 0 {
				return &explore.Verdict{Kind: "concurrent-request-failed", Clause: "a provider may be used by many goroutines from its first use on: all callers get equivalent templates", Detail: strings.Join(o.errs, "; ")}
			}
			if len(o.wrong) > 0 {
				return &explore.Verdict{Kind: "concurrent-wrong-rendering", Clause: "all callers get equivalent templates", Detail: strings.Join(o.wrong, "; ")}
			}
			return nil
		},
		RaceOK: func(r vsched.RaceInfo) bool {
			return !(strings.Contains(r.First, "provider") || strings.Contains(r.Second, "provider"))
		},
	}
}

func programs(thorough bool) []Spec {
	b2, b3 := 2, 1
	if thorough {
		b2, b3 = 4, 2
	}
	v1 := Request{Kind: "view", Layout: "default", View: "v1"}
	v2 := Request{Kind: "view", Layout: "default", View: "v2"}
	va := Request{Kind: "view", Layout: "alt", View: "v1"}
	ld := Request{Kind: "layout", Layout: "default"}
	la := Request{Kind: "layout", Layout: "alt"}
	bs := Request{Kind: "base"}
	var ps []Spec
	for _, html := range []bool{true, false} {
		for _, cached := range []bool{true, false} {
			cfg := Config{HTML: html, Cached: cached, Helpers: true}
			ps = append(ps,
				Spec{cfg, [][]Request{{v1}, {v1}}, b2},
				Spec{cfg, [][]Request{{v1}, {v2}}, b2},
				Spec{cfg, [][]Request{{v1}, {ld}}, b2},
				Spec{cfg, [][]Request{{va}, {v2}}, b2},
				Spec{cfg, [][]Request{{ld}, {la}}, b2},
				Spec{cfg, [][]Request{{bs}, {v1}}, b2},
				Spec{cfg, [][]Request{{v1, v2}, {v2, v1}}, b2},
				Spec{cfg, [][]Request{{v1}, {v2}, {va}}, b3},
				Spec{cfg, [][]Request{{v1}, {v1}, {ld}}, b3},
			)
		}
	}
	return ps
}

func run(c *fw.Ctx) {
	report := func(f *finding, w interface{}) {
		sg := "C19/" + f.kind
		if c.Violated(sg) {
			c.Violate(&fw.Violation{Signature: sg})
			return
		}
		c.Violate(&fw.Violation{Property: "C19", Clause: f.clause, Signature: sg, Detail: f.detail, Witness: fw.JSON(w)})
	}
	depth := 3
	item := 0
	var seqs [][]Request
	var rec func(cur []Request)
	rec = func(cur []Request) {
		if len(cur) > 0 {
			seqs = append(seqs, cur)
		}
		if len(cur) == depth {
			return
		}
		for _, r := range requestPool {
			rec(append(append([]Request{}, cur...), r))
		}
	}
	rec(nil)
	// nested names: all sequences of <= 2 requests over the nested pool
	for _, r1 := range nestedPool {
		seqs = append(seqs, []Request{r1})
		for _, r2 := range nestedPool {
			seqs = append(seqs, []Request{r1, r2})
		}
	}
	c.R.Info["request_sequences"] = len(seqs)
	for _, html := range []bool{true, false} {
		for _, helpers := range []bool{true, false} {
			for _, reqs := range seqs {
				item++
				if !c.Mine(item) {
					continue
				}
				if c.Expired() {
					c.NotExhaustive("deadline")
					return
				}
				var outs [2][]string
				for ci, cached := range []bool{true, false} {
					cfg := Config{HTML: html, Cached: cached, Helpers: helpers}
					c.R.Evaluations++
					c.Count("sequential_request_sequences", 1)
					o, f := runSequence(cfg, reqs)
					outs[ci] = o
					if f != nil {
						suffix := "/uncached"
						if cached {
							suffix = "/cached"
						}
						f.kind += suffix
						report(f, map[string]interface{}{"seq": seqWit{cfg, reqs}})
					}
				}
				if strings.Join(outs[0], "\x00") != strings.Join(outs[1], "\x00") {
					report(&finding{"cached-differs-from-uncached", "the result is the same with caching on or off", fmt.Sprintf("html=%v helpers=%v requests %v: cached outputs %q, uncached outputs %q", html, helpers, reqs, outs[0], outs[1])}, map[string]interface{}{"seq": seqWit{Config{HTML: html, Cached: true, Helpers: helpers}, reqs}})
				}
			}
		}
	}
	// other configured extensions: compound (two dots) and without a leading dot - the extension is a suffix
	for _, html := range []bool{true, false} {
		for _, e := range []string{".tmpl.html", "tpl"} {
			for _, r1 := range requestPool {
				for _, r2 := range append([]Request{{Kind: ""}}, requestPool...) {
					reqs := []Request{r1}
					if r2.Kind != "" {
						reqs = append(reqs, r2)
					}
					item++
					if !c.Mine(item) {
						continue
					}
					var outs [2][]string
					for ci, cached := range []bool{true, false} {
						cfg := Config{HTML: html, Cached: cached, Helpers: true, Ext: e}
						c.R.Evaluations++
						c.Count("other_extension_sequences", 1)
						o, f := runSequence(cfg, reqs)
						outs[ci] = o
						if f != nil {
							f.kind += "/extension"
							report(f, map[string]interface{}{"seq": seqWit{cfg, reqs}})
						}
					}
					if strings.Join(outs[0], "\x00") != strings.Join(outs[1], "\x00") {
						report(&finding{"cached-differs-from-uncached", "the result is the same with caching on or off", fmt.Sprintf("html=%v extension %q requests %v: cached outputs %q, uncached outputs %q", html, e, reqs, outs[0], outs[1])}, map[string]interface{}{"seq": seqWit{Config{HTML: html, Cached: true, Helpers: true, Ext: e}, reqs}})
					}
				}
			}
		}
	}
	// every failing filespace call during a first request, then the request again
	for _, html := range []bool{true, false} {
		for _, cached := range []bool{true, false} {
			cfg := Config{HTML: html, Cached: cached, Helpers: true}
			for _, r := range requestPool {
				item++
				if !c.Mine(item) {
					continue
				}
				n, _ := faultThenRetry(cfg, r, 0)
				for k := 1; k <= n; k++ {
					c.R.Evaluations++
					c.Count("fault_positions", 1)
					if _, f := faultThenRetry(cfg, r, k); f != nil {
						if cached {
							f.kind += "/cached"
						} else {
							f.kind += "/uncached"
						}
						report(f, map[string]interface{}{"fault": map[string]interface{}{"config": cfg, "request": r, "k": k}})
					}
				}
			}
		}
	}
	runOverlap(c)
	if c.R.InfraError != "" {
		return
	}
	// concurrent first use
	ps := programs(c.Thorough())
	c.R.Info["concurrent_programs"] = len(ps)
	for i, sp := range ps {
		if !c.Mine(i) {
			continue
		}
		if c.Expired() {
			c.NotExhaustive("deadline")
			break
		}
		if !explore.RunProgram(c, mkProgram(sp)) && c.R.InfraError != "" {
			return
		}
		if i%13 == 1 {
			c.Sample(map[string]interface{}{"program": sp})
		}
	}
	c.R.Distinct = c.R.Evaluations
}

func replay(wj json.RawMessage) (*fw.Violation, error) {
	var w struct {
		Seq   *seqWit `json:"seq"`
		Fault *struct {
			Config  Config  `json:"config"`
			Request Request `json:"request"`
			K       int     `json:"k"`
		} `json:"fault"`
		Spec    Spec  `json:"spec"`
		Choices []int `json:"choices"`
	}
	var ow struct {
		Program string      `json:"program"`
		Spec    OverlapSpec `json:"spec"`
		Choices []int       `json:"choices"`
	}
	if err := json.Unmarshal(wj, &ow); err == nil && strings.HasPrefix(ow.Program, "overlap/") {
		return explore.ReplayProgram(mkOverlap(ow.Spec), ow.Choices)
	}
	if err := json.Unmarshal(wj, &w); err != nil {
		return nil, err
	}
	if w.Fault != nil {
		if _, f := faultThenRetry(w.Fault.Config, w.Fault.Request, w.Fault.K); f != nil {
			return &fw.Violation{Property: "C19", Clause: f.clause, Signature: "C19/" + f.kind, Detail: f.detail}, nil
		}
		return nil, nil
	}
	if w.Seq != nil {
		_, f := runSequence(w.Seq.Config, w.Seq.Requests)
		if f == nil {
			// maybe a cached/uncached difference
			a, _ := runSequence(Config{HTML: w.Seq.Config.HTML, Cached: true, Helpers: w.Seq.Config.Helpers, Ext: w.Seq.Config.Ext}, w.Seq.Requests)
			b, _ := runSequence(Config{HTML: w.Seq.Config.HTML, Cached: false, Helpers: w.Seq.Config.Helpers, Ext: w.Seq.Config.Ext}, w.Seq.Requests)
			if strings.Join(a, "\x00") != strings.Join(b, "\x00") {
				return &fw.Violation{Property: "C19", Clause: "cache transparent", Signature: "C19/cached-differs-from-uncached", Detail: fmt.Sprintf("%q vs %q", a, b)}, nil
			}
			return nil, nil
		}
		return &fw.Violation{Property: "C19", Clause: f.clause, Signature: "C19/" + f.kind, Detail: f.detail}, nil
	}
	return explore.ReplayProgram(mkProgram(w.Spec), w.Choices)
}

func init() {
	fw.Register(&fw.Check{ID: "C19", Level: "model_checking",
		Rule: "sequential: every sequence of <=3 requests from {Base, Layout(default|alt|''), View(default,v1|v2), View(alt,v1), View('',v2), View(default,missing)} x {HTML, text provider} x {helpers present, absent} x {cached, uncached}, plus all sequences of <=2 requests over nested names (layouts a and a/b, views b/c and c: joined names coincide) and a view with a file that does not parse (fails every time, later requests unaffected), each result rendered and compared (output of template 'page' and the set of defined template names) with a reference built directly on html/template / text/template (helpers, then layout files, then view files), and cached vs uncached outputs compared position by position; fault: every failing filespace call (ReadFile/ReadDir/IsDir...) during a first request followed by the same request on the healthy filespace; concurrent: 36 programs of 2-3 threads issuing first requests (same view, different views, view + layout, base + view, two requests per thread) under every schedule with <= bound preemptions with a happens-before state cache, callers' renderings compared with the reference and the race oracle applied to the providers' cache maps and fields. states = distinct schedule traces (concurrent part)",
		Run:  run, Replay: replay,
		Assumptions: []string{"one file set with overlapping definitions on every layer; walk order = sorted paths", "2-3 threads; bounds as reported; a racing map read/write is what makes Go abort with 'concurrent map read and map write', which the race oracle decides deterministically"}})
}
