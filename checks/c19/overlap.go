package c19

import (
	"fmt"
	"strings"

	"verif/explore"
	"verif/fw"
)

// Overlapping definitions INSIDE one layer (two files of a view / a layout / the helpers define the same
// template name): which file wins is not prescribed, but it must be the same every time - "asking twice
// gives equivalent templates", "the result is the same with caching on or off". The iteration order of
// every Go map the providers range over is an explored choice here (a map-ordered parse is as
// nondeterministic as a schedule), so no reference rendering is needed: the requests are compared with
// each other.

// OverlapSpec is one single-threaded program.
type OverlapSpec struct {
	HTML    bool    `json:"html"`
	Request Request `json:"request"`
}

var overlapFiles = map[string]string{
	"views/v3/a":     `{{define "title"}}T-v3a{{end}}{{define "content"}}C-v3a{{end}}`,
	"views/v3/b":     `{{define "title"}}T-v3b{{end}}`,
	"views/v3/c":     `{{define "content"}}C-v3c{{end}}{{define "h"}}H-v3c{{end}}`,
	"layouts/ovl/a":  `{{define "page"}}OVL<{{template "title" .}}|{{template "content" .}}|{{template "h" .}}>{{end}}{{define "title"}}T-ovl-a{{end}}{{define "content"}}C-ovl-a{{end}}`,
	"layouts/ovl/b":  `{{define "title"}}T-ovl-b{{end}}{{define "h"}}H-ovl-b{{end}}`,
	"layouts/ovl/cc": `{{define "content"}}C-ovl-c{{end}}`,
	"helpers/zz":     `{{define "h2"}}(h2-zz){{end}}`,
}

func overlapPrograms() []OverlapSpec {
	var ps []OverlapSpec
	for _, html := range []bool{true, false} {
		ps = append(ps,
			OverlapSpec{html, Request{Kind: "view", Layout: "ovl", View: "v3"}},
			OverlapSpec{html, Request{Kind: "view", Layout: "default", View: "v3"}},
			OverlapSpec{html, Request{Kind: "layout", Layout: "ovl"}},
			OverlapSpec{html, Request{Kind: "base"}})
	}
	return ps
}

type ovObs struct {
	outs []string
	errs []string
	done bool
}

func mkOverlap(sp OverlapSpec) *explore.Program {
	o := &ovObs{}
	return &explore.Program{Prop: "C19", Name: fmt.Sprintf("overlap/html=%v/%s", sp.HTML, sp.Request), Spec: sp,
		Opt: explore.Options{Bound: 2, Focus: focus, MapPerm: true, MapCost: 1, MaxSteps: 50000, NoShard: true},
		Body: func() {
			*o = ovObs{}
			for _, cached := range []bool{false, true} {
				cfg := Config{HTML: sp.HTML, Cached: cached, Helpers: true, Overlap: true}
				p := newProvider(cfg, newFS(cfg))
				for i := 0; i < 2; i++ {
					ex, err := p.do(sp.Request)
					if err != nil {
						o.errs = append(o.errs, fmt.Sprintf("cached=%v request %d: %v", cached, i, err))
						continue
					}
					out, names := ex.render()
					o.outs = append(o.outs, fmt.Sprintf("%s [%s]", out, names))
				}
			}
			o.done = true
		},
		Judge: func(x *explore.Exec) *explore.Verdict {
			if !o.done {
				return &explore.Verdict{Kind: "not-finished", Clause: "calls return", Detail: "harness did not finish"}
			}
			if len(o.errs) > 0 {
				return &explore.Verdict{Kind: "overlap/request-failed", Clause: "asking twice gives equivalent templates", Detail: strings.Join(o.errs, "; ")}
			}
			for i, s := range o.outs {
				if s != o.outs[0] {
					return &explore.Verdict{Kind: "overlap/same-request-different-templates", Clause: "asking twice gives equivalent templates; the result is the same with caching on or off",
						Detail: fmt.Sprintf("%s over files with overlapping definitions inside one layer, asked twice of an uncached and twice of a cached provider: answer 0 is\n  %q\nanswer %d is\n  %q", sp.Request, o.outs[0], i, s)}
				}
			}
			return nil
		},
		Outcome: func() string {
			if len(o.outs) > 0 {
				return o.outs[0]
			}
			return ""
		},
	}
}

func runOverlap(c *fw.Ctx) {
	ps := overlapPrograms()
	c.R.Info["overlap_programs"] = len(ps)
	for i, sp := range ps {
		if !c.Mine(4000003 + i) {
			continue
		}
		if c.Expired() {
			c.NotExhaustive("deadline in the overlap part")
			return
		}
		if !explore.RunProgram(c, mkOverlap(sp)) && c.R.InfraError != "" {
			return
		}
	}
}
