package c05

import (
	"fmt"
	"strings"

	"github.com/goatcms/goatcore/zzverif/vsched"

	"verif/explore"
	"verif/fw"
)

// Two (or three) encrypted filespaces with DIFFERENT key material used from different goroutines
// of one process: whatever a cipher package shares between filespaces (key schedules, buffers,
// pooled state) must not let one filespace's data be sealed or opened with another's key.

// ConcSpec is one concurrent program.
type ConcSpec struct {
	Cipher  string   `json:"cipher"`
	W       string   `json:"write_path"`
	R       string   `json:"read_path"`
	Secrets []string `json:"secrets"` // one thread per secret
	Rounds  int      `json:"rounds"`
	Bound   int      `json:"bound"`
	// SamePlain: every tenant writes the SAME plaintext (with equal secrets the stored bytes must
	// still differ: two writes of the same data give different stored bytes)
	SamePlain bool `json:"same_plaintext,omitempty"`
}

type concObs struct {
	notes  []string
	stored map[string][]string // plaintext -> stored byte strings seen for it
	done   bool
}

var concFocus = []string{"filesystem/filespace/encryptfs", "checks/c05"}

func findW(name string) wpath {
	for _, x := range wpaths {
		if x.Name == name {
			return x
		}
	}
	return wpaths[0]
}

func findR(name string) rpath {
	for _, x := range rpaths {
		if x.Name == name {
			return x
		}
	}
	return rpaths[0]
}

func concBuild(sp ConcSpec, o *concObs) func() {
	return func() {
		*o = concObs{stored: map[string][]string{}}
		w, r := findW(sp.W), findR(sp.R)
		var wg vsched.WaitGroup
		type tenant struct {
			cfg   config
			plain []string
		}
		tenants := make([]tenant, len(sp.Secrets))
		bases := make([]interface{}, len(sp.Secrets))
		_ = bases
		for ti, sec := range sp.Secrets {
			ti, sec := ti, sec
			cfg := config{Cipher: sp.Cipher, Base: "mem", Secret: sec, Salt: "salt"}
			tenants[ti].cfg = cfg
			base, _ := newBase("mem")
			fs := enc(base, cfg)
			wg.Add(1)
			vsched.Spawn(func() {
				defer wg.Done()
				for round := 0; round < sp.Rounds; round++ {
					plain := fmt.Sprintf("tenant-%d private data, round %d: 0123456789abcdef", ti, round)
					if sp.SamePlain {
						plain = "the same data written by every tenant: 0123456789abcdef"
					}
					name := fmt.Sprintf("f%d.bin", round)
					if res := write(fs, name, plain, w); res.Err != "" || res.Panic != "" {
						o.notes = append(o.notes, fmt.Sprintf("write-failed|tenant %d (%s): %s%s", ti, w.Name, res.Err, res.Panic))
						return
					}
					if raw, err := base.ReadFile(name); err == nil {
						o.stored[plain] = append(o.stored[plain], string(raw))
					}
					res := read(fs, name, r)
					if res.Panic != "" {
						o.notes = append(o.notes, fmt.Sprintf("panic|tenant %d read: %s", ti, res.Panic))
						return
					}
					if res.Err != "" || res.Data != plain {
						o.notes = append(o.notes, fmt.Sprintf("own-data-not-readable|tenant %d wrote %q with its secret and read back err=%q data=%q", ti, short(plain), res.Err, short(res.Data)))
					}
					// the stored bytes must not open with any other tenant's key material
					for tj, other := range sp.Secrets {
						if tj == ti {
							continue
						}
						ocfg := cfg
						ocfg.Secret = other
						ro := read(enc(base, ocfg), name, r)
						if ro.Panic != "" {
							o.notes = append(o.notes, fmt.Sprintf("panic|tenant %d foreign read: %s", ti, ro.Panic))
						} else if ro.Err == "" {
							o.notes = append(o.notes, fmt.Sprintf("other-secret-answered-with-data|tenant %d's file opened with tenant %d's secret: data=%q", ti, tj, short(ro.Data)))
						}
					}
				}
			})
		}
		wg.Wait()
		o.done = true
	}
}

func concJudge(sp ConcSpec, o *concObs) func(x *explore.Exec) *explore.Verdict {
	return func(x *explore.Exec) *explore.Verdict {
		if !o.done {
			return &explore.Verdict{Kind: "conc/not-finished", Clause: "no call blocks", Detail: "the harness did not finish"}
		}
		for plain, raws := range o.stored {
			for i := range raws {
				for j := i + 1; j < len(raws); j++ {
					if raws[i] == raws[j] {
						return &explore.Verdict{Kind: "conc/same-data-same-stored-bytes", Clause: "two writes of the same data give different stored bytes",
							Detail: fmt.Sprintf("two concurrent writes of %q produced byte-identical stored files (%d bytes): nonce / key stream re-used", short(plain), len(raws[i]))}
					}
				}
			}
		}
		if len(o.notes) > 0 {
			parts := strings.SplitN(o.notes[0], "|", 2)
			clause := "whatever is written through the encrypted filespace is read back identically by a filespace with the same secret; bytes produced with another secret are answered with an error"
			return &explore.Verdict{Kind: "conc/" + parts[0], Clause: clause, Detail: strings.Join(o.notes, "\n")}
		}
		return nil
	}
}

func concPrograms(thorough bool) []ConcSpec {
	b := 2
	if thorough {
		b = 3
	}
	var ps []ConcSpec
	for _, ci := range []string{"raw", "tagged"} {
		for _, w := range []string{"WriteFile", "Writer/3chunks"} {
			for _, r := range []string{"ReadFile", "Reader/buf7"} {
				ps = append(ps, ConcSpec{Cipher: ci, W: w, R: r, Secrets: []string{"alpha", "beta"}, Rounds: 1, Bound: b})
			}
		}
		ps = append(ps, ConcSpec{Cipher: ci, W: "WriteFile", R: "ReadFile", Secrets: []string{"alpha", "beta"}, Rounds: 2, Bound: b})
		ps = append(ps, ConcSpec{Cipher: ci, W: "WriteFile", R: "ReadFile", Secrets: []string{"alpha", "beta", "gamma"}, Rounds: 1, Bound: b - 1})
		// the same secret from two goroutines (shared state must also be safe for equal keys)
		ps = append(ps, ConcSpec{Cipher: ci, W: "Writer/3chunks", R: "Reader/buf7", Secrets: []string{"alpha", "alpha"}, Rounds: 1, Bound: b})
		ps = append(ps, ConcSpec{Cipher: ci, W: "WriteFile", R: "ReadFile", Secrets: []string{"alpha", "alpha"}, Rounds: 2, Bound: b, SamePlain: true})
		ps = append(ps, ConcSpec{Cipher: ci, W: "WriteFile", R: "ReadFile", Secrets: []string{"alpha", "alpha", "alpha"}, Rounds: 1, Bound: b - 1, SamePlain: true})
	}
	return ps
}

func (sp ConcSpec) name() string {
	n := fmt.Sprintf("conc/%s/%s/%s/%s/x%d", sp.Cipher, sp.W, sp.R, strings.Join(sp.Secrets, "+"), sp.Rounds)
	if sp.SamePlain {
		n += "/same-plaintext"
	}
	return n
}

func mkConc(sp ConcSpec) *explore.Program {
	o := &concObs{}
	judge := concJudge(sp, o)
	if sp.Secrets[0] == sp.Secrets[len(sp.Secrets)-1] {
		// equal secrets: foreign reads are not foreign
		inner := judge
		judge = func(x *explore.Exec) *explore.Verdict {
			var keep []string
			for _, n := range o.notes {
				if !strings.HasPrefix(n, "other-secret-answered-with-data|") {
					keep = append(keep, n)
				}
			}
			o.notes = keep
			return inner(x)
		}
	}
	return &explore.Program{Prop: "C05", Name: sp.name(), Spec: sp,
		Opt:  explore.Options{Bound: sp.Bound, Focus: concFocus, Race: true, MaxSteps: 20000, HBR: true, NoShard: true},
		Body: concBuild(sp, o), Judge: judge,
		Outcome: func() string { return fmt.Sprint(len(o.notes)) },
		RaceOK:  func(r vsched.RaceInfo) bool { return !strings.Contains(r.First, "encryptfs") && !strings.Contains(r.Second, "encryptfs") },
	}
}

func runConc(c *fw.Ctx) {
	ps := concPrograms(c.Thorough())
	c.R.Info["concurrent_programs"] = len(ps)
	for i, sp := range ps {
		if !c.Mine(1000003 + i) {
			continue
		}
		if c.Expired() {
			c.NotExhaustive("deadline in the concurrent part")
			return
		}
		if !explore.RunProgram(c, mkConc(sp)) && c.R.InfraError != "" {
			return
		}
	}
}
