package c05

import (
	"fmt"

	"github.com/goatcms/goatcore/filesystem"

	"verif/fsx"
)

// Writer handles: every stream writer owns its plaintext until ITS Close. A writer that was closed
// twice (defer w.Close() next to an explicit Close - the second call may fail, that is all) or written
// to after its Close must not change what OTHER writers, opened later and open at the same time, store:
// all interleavings of the calls of two such writers (write, write, close | write, close) are run and
// both files read back (whole-file and stream path).
type handleCase struct {
	PriorCloses     int   `json:"prior_closes"`
	WriteAfterClose bool  `json:"write_after_close"`
	Order           []int `json:"order"` // 0 = next call of writer b, 1 = next call of writer c
}

func handleCases() []handleCase {
	var orders [][]int
	var rec func(cur []int, b, c int)
	rec = func(cur []int, b, c int) {
		if b == 0 && c == 0 {
			orders = append(orders, append([]int{}, cur...))
			return
		}
		if b > 0 {
			rec(append(cur, 0), b-1, c)
		}
		if c > 0 {
			rec(append(cur, 1), b, c-1)
		}
	}
	rec(nil, 3, 2)
	var cs []handleCase
	for _, pc := range []int{1, 2} {
		for _, wac := range []bool{false, true} {
			for _, o := range orders {
				cs = append(cs, handleCase{pc, wac, o})
			}
		}
	}
	return cs
}

func writerHandles(c config, hc handleCase) []finding {
	var out []finding
	add := func(kind, detail string) {
		out = append(out, finding{kind, "opening a writer, writing any chunks and closing leaves a file whose content is exactly the concatenation of the chunks", detail, witness{Config: c, Part: "handles", Handle: &hc}})
	}
	res := fsx.RunSeq(func() {
		base, done := newBase(c.Base)
		defer done()
		fs := enc(base, c)
		quiet := func(f func()) {
			defer func() { recover() }() // misuse of the EARLIER handle may be refused in any way
			f()
		}
		var prior filesystem.Writer
		var err error
		if prior, err = fs.Writer("a.dat"); err != nil {
			add("handles/writer-refused", "Writer(a.dat): "+err.Error())
			return
		}
		prior.Write([]byte("AAAA-first-file"))
		if err = prior.Close(); err != nil {
			add("handles/close-failed", "Close(a.dat): "+err.Error())
			return
		}
		for i := 1; i < hc.PriorCloses; i++ {
			quiet(func() { prior.Close() })
		}
		wb, err := fs.Writer("b.dat")
		if err != nil {
			add("handles/writer-refused", "Writer(b.dat): "+err.Error())
			return
		}
		wc, err := fs.Writer("c.dat")
		if err != nil {
			add("handles/writer-refused", "Writer(c.dat): "+err.Error())
			return
		}
		bCalls := []func() error{
			func() error { _, e := wb.Write([]byte("BBBB-one|")); return e },
			func() error { _, e := wb.Write([]byte("BBBB-two")); return e },
			func() error { return wb.Close() },
		}
		cCalls := []func() error{
			func() error { _, e := wc.Write([]byte("CCCC-only")); return e },
			func() error { return wc.Close() },
		}
		bi, ci := 0, 0
		for k, who := range hc.Order {
			if hc.WriteAfterClose && k == 2 {
				quiet(func() { prior.Write([]byte("LATE-write-on-a-closed-handle")) })
			}
			var e error
			if who == 0 {
				e = bCalls[bi]()
				bi++
			} else {
				e = cCalls[ci]()
				ci++
			}
			if e != nil {
				add("handles/call-failed", fmt.Sprintf("call %d of writer %s failed: %v", k, map[int]string{0: "b.dat", 1: "c.dat"}[who], e))
				return
			}
		}
		for _, f := range []struct{ p, want string }{{"a.dat", "AAAA-first-file"}, {"b.dat", "BBBB-one|BBBB-two"}, {"c.dat", "CCCC-only"}} {
			for _, r := range rpaths[:2] {
				got := read(fs, f.p, r)
				if got.Panic != "" || got.Err != "" || got.Data != f.want {
					add("handles/other-writers-data", fmt.Sprintf("an earlier writer was closed %d time(s) (late write on it: %v); then writers b.dat and c.dat were open together, calls in order %v (0 = b, 1 = c): %s of %s returned %q (err %q panic %q), written was %q",
						hc.PriorCloses, hc.WriteAfterClose, hc.Order, r.Name, f.p, short(got.Data), got.Err, got.Panic, f.want))
					return
				}
			}
		}
	})
	if len(out) == 0 && (res.Deadlock || res.Horizon) {
		add("handles/blocked", fmt.Sprintf("blocked: %v", res.Blocked))
	}
	if len(out) == 0 && len(res.Panics) > 0 {
		add("handles/panic", res.Panics[0].Value)
	}
	return out
}
