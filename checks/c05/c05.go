// Package c05 decides C05: encrypted filespace round-trip, secrecy, integrity, no crash on bad
// data. Engine: bounded exhaustive enumeration of configurations x plaintexts x write/read
// paths, plus EVERY truncation length and single-byte corruption of the stored bytes
// (fault enumeration), plus a lock-step name-space comparison with the tree model.
package c05

import (
	"bytes"
	"crypto/rand"
	"encoding/json"
	"fmt"
	"os"
	"path/filepath"
	"strings"

	"github.com/goatcms/goatcore/filesystem"
	"github.com/goatcms/goatcore/filesystem/filespace/diskfs"
	"github.com/goatcms/goatcore/filesystem/filespace/encryptfs"
	"github.com/goatcms/goatcore/filesystem/filespace/encryptfs/cipherfs"
	"github.com/goatcms/goatcore/filesystem/filespace/encryptfs/cipherfs/aesgcm256cfs"
	"github.com/goatcms/goatcore/filesystem/filespace/encryptfs/cipherfs/extcfs"
	"github.com/goatcms/goatcore/filesystem/filespace/memfs"

	"verif/explore"
	"verif/fsx"
	"verif/fw"
	"verif/models/treefs"
)

// counterReader replaces crypto/rand.Reader: deterministic, never repeating.
type counterReader struct{ n uint64 }

func (c *counterReader) Read(p []byte) (int, error) {
	for i := range p {
		c.n++
		x := c.n * 0x9E3779B97F4A7C15
		p[i] = byte(x >> 29)
	}
	return len(p), nil
}

type config struct {
	Cipher   string `json:"cipher"` // raw | tagged
	Base     string `json:"base"`   // mem | disk
	Secret   string `json:"secret"`
	Salt     string `json:"salt"`
	HostOnly bool   `json:"host_only"`
}

func (c config) cipher() cipherfs.Cipher {
	if c.Cipher == "tagged" {
		return extcfs.NewDefaultCipher()
	}
	return aesgcm256cfs.NewCipher()
}

func (c config) settings() encryptfs.Settings {
	return encryptfs.Settings{Secret: []byte(c.Secret), Salt: []byte(c.Salt), HostOnly: c.HostOnly, Cipher: c.cipher()}
}

var scratchSeq int

func newBase(kind string) (filesystem.Filespace, func()) {
	if kind == "disk" {
		base := os.Getenv("VCHECK_SCRATCH")
		if base == "" {
			base = os.TempDir()
		}
		scratchSeq++
		d := filepath.Join(base, fmt.Sprintf("c05-%d", scratchSeq))
		os.MkdirAll(d, 0777)
		fs, err := diskfs.NewFilespace(d)
		if err != nil {
			panic(err)
		}
		return fs, func() { os.RemoveAll(d) }
	}
	fs, _ := memfs.NewFilespace()
	return fs, func() {}
}

func plaintexts(thorough bool) []string {
	pat := func(n int) string {
		b := make([]byte, n)
		for i := range b {
			b[i] = byte('A' + (i*7+i/13)%26)
		}
		return string(b)
	}
	// (70000 > 64 KiB: larger than any buffer / segment size a cipher or copy loop is likely to use)
	l := []string{"", "Z", pat(16), pat(17), pat(4096), pat(70000)}
	if thorough {
		l = append(l, pat(15), pat(33), pat(140001))
	}
	return l
}

type wpath struct {
	Name   string
	Chunks int // 0 = WriteFile
}
type rpath struct {
	Name string
	Buf  int // 0 = ReadFile
}

var wpaths = []wpath{{"WriteFile", 0}, {"Writer/1chunk", 1}, {"Writer/3chunks", 3}}
var rpaths = []rpath{{"ReadFile", 0}, {"Reader/buf1", 1}, {"Reader/buf7", 7}, {"Reader/buf4096", 4096}}

func write(fs filesystem.Filespace, p string, data string, w wpath) fsx.Result {
	if w.Chunks == 0 {
		return fsx.Exec(fs, treefs.Op{Kind: "WriteFile", P: p, Data: data})
	}
	var chunks []string
	if w.Chunks == 1 || len(data) < 2 {
		chunks = []string{data}
	} else {
		a, b := len(data)/3, 2*len(data)/3
		chunks = []string{data[:a], data[a:b], "", data[b:]}
	}
	return fsx.Exec(fs, treefs.Op{Kind: "Writer", P: p, Chunks: chunks})
}

func read(fs filesystem.Filespace, p string, r rpath) fsx.Result {
	if r.Buf == 0 {
		return fsx.Exec(fs, treefs.Op{Kind: "ReadFile", P: p})
	}
	return fsx.Exec(fs, treefs.Op{Kind: "Reader", P: p, Buf: r.Buf})
}

type witness struct {
	Config config      `json:"config"`
	Part   string      `json:"part"`
	PlainN int         `json:"plaintext_len"`
	W      string      `json:"write_path,omitempty"`
	R      string      `json:"read_path,omitempty"`
	Other  *config     `json:"other_config,omitempty"`
	Trunc  int         `json:"truncate_to,omitempty"`
	Pos    int         `json:"corrupt_pos,omitempty"`
	Xor    int         `json:"corrupt_xor,omitempty"`
	Prev   string      `json:"previous_content,omitempty"`
	Handle *handleCase `json:"writer_handles,omitempty"`
}

type finding struct {
	kind, clause, detail string
	wit                  witness
}

func enc(base filesystem.Filespace, c config) filesystem.Filespace {
	fs, err := encryptfs.NewEncryptFS(base, c.settings())
	if err != nil {
		panic(err)
	}
	return fs
}

// roundTrip checks oracle 1-3 for one (config, plaintext, write path, previous content).
func roundTrip(c config, plain string, w wpath, prev string, thorough bool) []finding {
	var out []finding
	add := func(kind, clause, detail string, wit witness) {
		wit.Config, wit.PlainN, wit.W, wit.Prev = c, len(plain), w.Name, prev
		out = append(out, finding{kind, clause, detail, wit})
	}
	fsx.RunSeq(func() {
		base, done := newBase(c.Base)
		defer done()
		efs := enc(base, c)
		efs.MkdirAll("d", 0777) // a disk Writer needs an existing parent (C02 precondition)
		if prev != "-" {
			if r := write(efs, "d/f", prev, wpaths[0]); !r.OK() {
				add("write-failed", "whatever is written is read back", fmt.Sprintf("initial write failed: %+v", r), witness{Part: "roundtrip"})
				return
			}
		}
		if r := write(efs, "d/f", plain, w); !r.OK() {
			add("write-failed", "whatever is written is read back", fmt.Sprintf("write failed: err=%q panic=%q", r.Err, r.Panic), witness{Part: "roundtrip"})
			return
		}
		raw1, err := base.ReadFile("d/f")
		if err != nil {
			add("raw-missing", "stored bytes exist in the underlying filespace", err.Error(), witness{Part: "roundtrip"})
			return
		}
		raw1 = append([]byte(nil), raw1...)
		for _, r := range rpaths {
			res := read(efs, "d/f", r)
			if !res.OK() || res.Data != plain {
				add("roundtrip-mismatch/"+w.Name+"->"+rname(r), "read back identically through either path", fmt.Sprintf("wrote %d bytes via %s over previous %q, read via %s: err=%q panic=%q got %d bytes (equal=%v)", len(plain), w.Name, short(prev), r.Name, res.Err, res.Panic, len(res.Data), res.Data == plain), witness{Part: "roundtrip", R: r.Name})
			}
		}
		if len(plain) >= 8 && bytes.Contains(raw1, []byte(plain)) {
			add("plaintext-stored", "the underlying filespace never contains the plaintext", fmt.Sprintf("raw stored bytes (%d) contain the %d-byte plaintext", len(raw1), len(plain)), witness{Part: "roundtrip"})
		}
		if len(plain) >= 16 && bytes.Contains(raw1, []byte(plain[:16])) {
			add("plaintext-prefix-stored", "the underlying filespace never contains the plaintext", "raw stored bytes contain the first 16 plaintext bytes", witness{Part: "roundtrip"})
		}
		// freshness
		if r := write(efs, "d/g", plain, w); r.OK() {
			raw2, _ := base.ReadFile("d/g")
			if bytes.Equal(raw1, raw2) {
				add("not-fresh", "two writes of the same data give different stored bytes", fmt.Sprintf("two writes of the same %d-byte plaintext stored identical %d bytes", len(plain), len(raw1)), witness{Part: "roundtrip"})
			}
		}
		// a second filespace object with the same settings reads it too
		efs2 := enc(base, c)
		if res := read(efs2, "d/f", rpaths[0]); !res.OK() || res.Data != plain {
			add("same-settings-cannot-read", "read back by a filespace with the same secret, salt and host binding", fmt.Sprintf("err=%q panic=%q", res.Err, res.Panic), witness{Part: "roundtrip", R: "ReadFile"})
		}
		// a child view is the same filespace with another root (a name-space operation): what the parent
		// wrote is read through the child and vice versa, also by an independent same-settings filespace
		child, err := efs.Filespace("d")
		if err != nil {
			add("child-view-failed", "all name-space operations behave exactly as on the underlying filespace", "Filespace(d): "+err.Error(), witness{Part: "roundtrip"})
			return
		}
		for _, r := range []rpath{rpaths[0], rpaths[2]} {
			if res := read(child, "f", r); !res.OK() || res.Data != plain {
				add("child-view-cannot-read-parent-data", "read back identically by a filespace with the same secret, salt and host binding; name-space operations behave as on the underlying filespace", fmt.Sprintf("d/f written through the parent, read as f through Filespace(d) via %s: err=%q panic=%q equal=%v", r.Name, res.Err, res.Panic, res.Data == plain), witness{Part: "roundtrip", R: r.Name})
			}
		}
		if r := write(child, "h", plain, w); !r.OK() {
			add("write-failed", "whatever is written is read back", fmt.Sprintf("write through the child view failed: err=%q panic=%q", r.Err, r.Panic), witness{Part: "roundtrip"})
			return
		}
		for who, fs := range map[string]filesystem.Filespace{"the parent": efs, "an independent filespace with the same settings": efs2} {
			if res := read(fs, "d/h", rpaths[0]); !res.OK() || res.Data != plain {
				add("parent-cannot-read-child-view-data", "read back identically by a filespace with the same secret, salt and host binding; name-space operations behave as on the underlying filespace", fmt.Sprintf("h written through Filespace(d), read as d/h by %s: err=%q panic=%q equal=%v", who, res.Err, res.Panic, res.Data == plain), witness{Part: "roundtrip", R: "ReadFile"})
			}
		}
	})
	return out
}

func rname(r rpath) string { return r.Name }

// alternation: one encrypted filespace holds two files written one after the other with different
// write paths and lengths; a second filespace with another secret over another base does the same
// in between; every file must read back as written, and the foreign secret must not open anything.
func alternation(c config, p1, p2 string, w1, w2 wpath, r rpath) []finding {
	var out []finding
	add := func(kind, detail string) {
		out = append(out, finding{kind, "whatever is written through the encrypted filespace is read back identically by a filespace with the same secret, salt and host binding", detail, witness{Config: c, Part: "alternation", PlainN: len(p1), W: w1.Name, R: r.Name, Prev: fmt.Sprintf("%d/%s", len(p2), w2.Name)}})
	}
	baseA, doneA := newBase(c.Base)
	defer doneA()
	baseB, doneB := newBase("mem")
	defer doneB()
	other := c
	other.Secret = c.Secret + "-other"
	fa, fb := enc(baseA, c), enc(baseB, other)
	pa1, pa2 := "A1:"+p1, "A2:"+p2
	pb1, pb2 := "B1:"+p2, "B2:"+p1
	steps := []struct {
		fs   filesystem.Filespace
		name string
		data string
		w    wpath
	}{{fa, "one.bin", pa1, w1}, {fb, "one.bin", pb1, w2}, {fa, "two.bin", pa2, w2}, {fb, "two.bin", pb2, w1}}
	for _, st := range steps {
		if res := write(st.fs, st.name, st.data, st.w); res.Err != "" || res.Panic != "" {
			add("alternation-write-failed", fmt.Sprintf("%s via %s: %s%s", st.name, st.w.Name, res.Err, res.Panic))
			return out
		}
	}
	for _, st := range steps {
		res := read(st.fs, st.name, r)
		if res.Panic != "" || res.Err != "" || res.Data != st.data {
			add("alternation-read-differs", fmt.Sprintf("two filespaces and two files each, written in alternation: %s (written via %s, %d bytes) reads back err=%q panic=%q data=%s", st.name, st.w.Name, len(st.data), res.Err, res.Panic, short(res.Data)))
			return out
		}
	}
	// the other filespace's secret over this base
	if res := read(enc(baseA, other), "one.bin", r); res.Panic != "" || res.Err == "" {
		out = append(out, finding{"alternation-other-secret-accepted", "bytes produced with another secret are answered with an error", fmt.Sprintf("one.bin read with the other filespace's secret: err=%q panic=%q data=%s", res.Err, res.Panic, short(res.Data)), witness{Config: c, Part: "alternation", PlainN: len(p1), W: w1.Name, R: r.Name}})
	}
	return out
}

func short(s string) string {
	if len(s) > 12 {
		return fmt.Sprintf("%s...(%d bytes)", s[:12], len(s))
	}
	return s
}

// wrongKey checks oracle 4: every other (secret, salt) must be answered with an error.
func wrongKey(c config, others []config, plain string) []finding {
	var out []finding
	fsx.RunSeq(func() {
		base, done := newBase(c.Base)
		defer done()
		efs := enc(base, c)
		if r := write(efs, "f", plain, wpaths[0]); !r.OK() {
			return
		}
		for _, o := range others {
			if o.Secret == c.Secret && o.Salt == c.Salt {
				continue
			}
			o := o
			o.Base, o.Cipher, o.HostOnly = c.Base, c.Cipher, c.HostOnly
			ofs := enc(base, o)
			for _, r := range []rpath{rpaths[0], rpaths[2]} {
				res := read(ofs, "f", r)
				kind := ""
				switch {
				case res.Panic != "":
					kind = "other-key-panic"
				case res.Err == "":
					kind = "other-key-accepted"
					if c.Secret+c.Salt == o.Secret+o.Salt {
						kind = "other-key-accepted/secret-salt-concatenation-collision"
					}
				}
				if kind != "" {
					oc := o
					out = append(out, finding{kind, "bytes produced with another secret or salt are answered with an error, never with data", fmt.Sprintf("written with secret=%q salt=%q, read with secret=%q salt=%q via %s: err=%q panic=%q data=%q", c.Secret, c.Salt, o.Secret, o.Salt, r.Name, res.Err, res.Panic, short(res.Data)),
						witness{Config: c, Part: "wrongkey", PlainN: len(plain), R: r.Name, Other: &oc}})
				}
			}
		}
	})
	return out
}

// sharedBuffers: the settings' byte slices belong to the caller. Two filespaces built from the
// SAME secret buffer (with spare capacity) and different salts must stay independent, and a
// caller that wipes or reuses its buffers after construction must not change a live filespace.
func sharedBuffers(c config, plain string) []finding {
	var out []finding
	add := func(kind, clause, detail string) {
		out = append(out, finding{kind, clause, detail, witness{Config: c, Part: "sharedbuf", PlainN: len(plain)}})
	}
	fsx.RunSeq(func() {
		base, done := newBase(c.Base)
		defer done()
		secret := make([]byte, len(c.Secret), 96)
		copy(secret, c.Secret)
		saltA := make([]byte, 5, 64)
		copy(saltA, "saltA")
		saltB := []byte("saltB")
		mk := func(salt []byte) filesystem.Filespace {
			fs, err := encryptfs.NewEncryptFS(base, encryptfs.Settings{Secret: secret, Salt: salt, HostOnly: c.HostOnly, Cipher: c.cipher()})
			if err != nil {
				panic(err)
			}
			return fs
		}
		fsA := mk(saltA)
		if r := write(fsA, "fa", plain, wpaths[0]); !r.OK() {
			add("write-failed", "whatever is written is read back", fmt.Sprintf("%+v", r))
			return
		}
		fsB := mk(saltB) // same secret buffer, other salt
		if r := write(fsB, "fb", plain, wpaths[1]); !r.OK() {
			add("write-failed", "whatever is written is read back", fmt.Sprintf("%+v", r))
			return
		}
		if r := read(fsA, "fa", rpaths[0]); !r.OK() || r.Data != plain {
			add("second-filespace-changed-the-first", "read back identically by a filespace with the same secret, salt and host binding", fmt.Sprintf("after a second filespace was built from the same secret buffer with another salt, the first can no longer read its own file: err=%q", r.Err))
		}
		if r := read(fsA, "fb", rpaths[0]); r.Err == "" && r.Panic == "" {
			add("other-salt-accepted-after-shared-buffer", "bytes produced with another salt are answered with an error", "the filespace with salt A decrypted a file written with salt B (both built from one secret buffer)")
		}
		if r := read(fsB, "fa", rpaths[2]); r.Err == "" && r.Panic == "" {
			add("other-salt-accepted-after-shared-buffer", "bytes produced with another salt are answered with an error", "the filespace with salt B decrypted a file written with salt A (both built from one secret buffer)")
		}
		// the caller wipes its buffers
		for i := range secret[:cap(secret)] {
			secret[:cap(secret)][i] = 0
		}
		for i := range saltA {
			saltA[i] = 'z'
		}
		if r := read(fsA, "fa", rpaths[2]); !r.OK() || r.Data != plain {
			add("caller-buffer-wipe-changed-the-key", "read back identically by a filespace with the same secret, salt and host binding", fmt.Sprintf("after the caller wiped the secret/salt buffers it had passed in, the filespace can no longer read its file: err=%q", r.Err))
		}
		if r := write(fsA, "fc", plain, wpaths[2]); r.OK() {
			fresh, err := encryptfs.NewEncryptFS(base, encryptfs.Settings{Secret: []byte(c.Secret), Salt: []byte("saltA"), HostOnly: c.HostOnly, Cipher: c.cipher()})
			if err == nil {
				if r2 := read(fresh, "fc", rpaths[0]); !r2.OK() || r2.Data != plain {
					add("caller-buffer-wipe-changed-the-key", "read back identically by a filespace with the same secret, salt and host binding", fmt.Sprintf("a file written after the caller wiped its buffers is not readable with the original secret and salt: err=%q", r2.Err))
				}
			}
		}
	})
	return out
}

// tamperOne reads the given raw bytes through the encrypted filespace (fresh base each time).
func tamperOne(c config, raw []byte, r rpath) fsx.Result {
	var res fsx.Result
	run := fsx.RunSeq(func() {
		base, done := newBase(c.Base)
		defer done()
		if err := base.WriteFile("f", raw, 0644); err != nil {
			res.Err = "harness: " + err.Error()
			return
		}
		res = read(enc(base, c), "f", r)
	})
	if len(run.Panics) > 0 {
		res.Panic = run.Panics[0].Value
	}
	if run.Deadlock {
		res.Panic = "blocked forever (leaked handle)"
	}
	return res
}

func storedBytes(c config, plain string, w wpath) []byte {
	var raw []byte
	fsx.RunSeq(func() {
		base, done := newBase("mem")
		defer done()
		if r := write(enc(base, c), "f", plain, w); r.OK() {
			b, _ := base.ReadFile("f")
			raw = append([]byte(nil), b...)
		}
	})
	return raw
}

// namespace: lock-step with the tree model through the encrypted filespace.
func namespace(c *fw.Ctx, cfg config, report func(f finding)) {
	contents := []string{"x", "yy"}
	states := fsx.Reach(fsx.Mutators(contents), 2, 1)
	alphabet := fsx.Alphabet(contents, 3, [][]string{nil, {"a"}}, false, []int{1, 64})
	mk := func() (filesystem.Filespace, func()) {
		base, done := newBase(cfg.Base)
		return enc(base, cfg), done
	}
	for si, s := range states {
		if si%5 != 0 && !c.Thorough() { // quick: every 5th canonical state
			continue
		}
		if c.Expired() {
			c.NotExhaustive("deadline in name-space part")
			return
		}
		for _, g := range alphabet {
			o := fsx.Step(mk, s.Hists[0], g.Op, false)
			c.R.Transitions++
			c.R.Evaluations++
			var m *fsx.Mismatch
			if o.Panic != "" {
				m = &fsx.Mismatch{Clause: "no panic", Kind: "panic", Detail: o.Panic}
			} else if o.Deadlock {
				m = &fsx.Mismatch{Clause: "operations return", Kind: "blocks-forever", Detail: fmt.Sprint(o.Blocked)}
			} else {
				e := treefs.Apply(s.Tree, g.Op)
				if cfg.Base == "disk" && e.Class == treefs.MustOK && len(g.Op.View) > 0 {
					e.Class = treefs.Either // disk child views need an existing directory (C02)
				}
				if cfg.Base == "disk" && g.Op.Kind == "Writer" && e.Class == treefs.MustOK {
					e.Class = treefs.Either
				}
				m = fsx.Compare(s.Tree, g.Op, e, o.R, o.After, o.Problems)
			}
			if m != nil {
				report(finding{"namespace-" + m.Kind + "/" + g.Op.Kind, "all name-space operations behave exactly as on the underlying filespace", fmt.Sprintf("history %s then %s: %s", fsx.HistString(s.Hists[0]), fsx.OpString(g.Op), m.Detail), witness{Config: cfg, Part: "namespace"}})
			}
		}
		c.R.States++
	}
}

func configs(thorough bool) []config {
	var out []config
	secrets := []string{"alpha", "beta", ""}
	salts := []string{"salt1", "salt2", ""}
	for _, ci := range []string{"raw", "tagged"} {
		for _, b := range []string{"mem", "disk"} {
			for _, s := range secrets {
				for _, t := range salts {
					for _, h := range []bool{false, true} {
						if !thorough && b == "disk" && (s != "alpha" || t != "salt1") {
							continue
						}
						out = append(out, config{ci, b, s, t, h})
					}
				}
			}
		}
	}
	return out
}

func keyPool() []config {
	var out []config
	for _, s := range []string{"alpha", "beta", ""} {
		for _, t := range []string{"salt1", "salt2", ""} {
			out = append(out, config{Secret: s, Salt: t})
		}
	}
	// two settings whose concatenation collides
	out = append(out, config{Secret: "ab", Salt: "c"}, config{Secret: "a", Salt: "bc"})
	return out
}

// longKeyPool: pairwise different settings whose secret||salt agree in their first 64 (resp. 100) bytes.
func longKeyPool() []config {
	l64 := strings.Repeat("0123456789abcdef", 4)
	l100 := strings.Repeat("pass phrase ", 9)[:100]
	return []config{
		{Secret: l64, Salt: "salt1"}, {Secret: l64, Salt: "salt2"}, {Secret: l64, Salt: ""}, {Secret: l64 + "X", Salt: "salt1"},
		{Secret: l100 + "tail-one", Salt: "salt1"}, {Secret: l100 + "tail-two", Salt: "salt1"}, {Secret: l100 + "tail-one", Salt: "salt2"},
	}
}

func run(c *fw.Ctx) {
	rand.Reader = &counterReader{}
	cfgs := configs(c.Thorough())
	plains := plaintexts(c.Thorough())
	c.R.Info["configurations"] = len(cfgs)
	c.R.Info["plaintext_lengths"] = func() []int {
		var l []int
		for _, p := range plains {
			l = append(l, len(p))
		}
		return l
	}()
	report := func(f finding) {
		sg := "C05/" + f.kind + "/" + f.wit.Config.Cipher
		if (strings.HasPrefix(f.kind, "tamper") || strings.HasPrefix(f.kind, "other-key")) && !strings.Contains(f.kind, "collision") {
			sg += "/" + f.wit.R
		}
		if c.Violated(sg) {
			c.Violate(&fw.Violation{Signature: sg})
			return
		}
		c.Violate(&fw.Violation{Property: "C05", Clause: f.clause, Signature: sg, Detail: fmt.Sprintf("config %+v\n%s", f.wit.Config, f.detail), Witness: fw.JSON(f.wit)})
	}
	// part 0: filespaces with different key material used concurrently (schedule exploration)
	runConc(c)
	if c.R.InfraError != "" {
		return
	}
	item := 0
	for _, cfg := range cfgs {
		// part A: round trip, secrecy, freshness
		for _, p := range plains {
			for _, w := range wpaths {
				for _, prev := range []string{"-", "short", strings.Repeat("L", len(p)+9)} {
					item++
					if !c.Mine(item) {
						continue
					}
					if c.Expired() {
						c.NotExhaustive("deadline")
						return
					}
					c.R.Evaluations += int64(len(rpaths) + 3)
					c.Count("roundtrip_cases", 1)
					for _, f := range roundTrip(cfg, p, w, prev, c.Thorough()) {
						report(f)
					}
				}
			}
		}
		// part A2: several files and two filespaces used in alternation (state shared between files or
		// between filespace objects - pooled buffers, remembered keys - must not leak from one to the other)
		for i1, p1 := range plains {
			for i2, p2 := range plains {
				item++
				if !c.Mine(item) || len(p1) > 5000 || len(p2) > 5000 {
					continue
				}
				for _, w1 := range wpaths {
					for _, w2 := range wpaths {
						c.R.Evaluations++
						c.Count("alternation_cases", 1)
						for _, f := range alternation(cfg, p1, p2, w1, w2, rpaths[(i1+i2)%len(rpaths)]) {
							report(f)
						}
					}
				}
			}
		}
		// part B: other keys
		item++
		if c.Mine(item) {
			pool := keyPool()
			for _, p := range []string{plains[2], ""} {
				c.Count("wrongkey_cases", int64(len(pool)))
				c.R.Evaluations += int64(2 * len(pool))
				for _, f := range wrongKey(cfg, pool, p) {
					report(f)
				}
			}
			for _, k := range pool[len(pool)-2:] {
				kc := cfg
				kc.Secret, kc.Salt = k.Secret, k.Salt
				for _, f := range wrongKey(kc, pool[len(pool)-2:], plains[2]) {
					report(f)
				}
			}
			// long key material (a 256-bit key in hex, a pass phrase): settings that differ only beyond
			// byte 64 / 100 of secret||salt - another salt, no salt, another tail of the secret
			if cfg.Secret == "alpha" && cfg.Salt == "salt1" {
				lp := longKeyPool()
				c.Count("wrongkey_cases", int64(len(lp)*len(lp)))
				c.R.Evaluations += int64(2 * len(lp) * len(lp))
				for _, k := range lp {
					kc := cfg
					kc.Secret, kc.Salt = k.Secret, k.Salt
					for _, f := range wrongKey(kc, lp, plains[2]) {
						report(f)
					}
				}
			}
		}
		// part B2: settings buffers shared with / reused by the caller
		item++
		if c.Mine(item) && cfg.Salt == "salt1" {
			c.R.Evaluations += 6
			c.Count("shared_buffer_cases", 1)
			for _, f := range sharedBuffers(cfg, plains[3]) {
				report(f)
			}
		}
		// writer handles: an earlier handle closed twice / written after Close, then two writers open together
		// (disk base: a second Close of an in-memory stream is not answered with an error by the base)
		if c.Mine(item) && cfg.Salt == "salt1" && cfg.Base == "disk" && cfg.Secret == "alpha" && !cfg.HostOnly {
			for _, hc := range handleCases() {
				c.R.Evaluations++
				c.Count("writer_handle_cases", 1)
				for _, f := range writerHandles(cfg, hc) {
					report(f)
				}
			}
		}
		// part C: every truncation and every single-byte corruption (memory base only is
		// enough for the cipher; disk base exercises the os.File reader path for truncations)
		if cfg.Secret == "alpha" && cfg.Salt == "salt1" && !cfg.HostOnly {
			for pi, p := range plains {
				for _, w := range []wpath{wpaths[0], wpaths[2]} {
					raw := storedBytes(cfg, p, w)
					if raw == nil {
						continue
					}
					// truncations
					for n := 0; n < len(raw); n++ {
						// long files: EVERY length for the whole-file paths on the memory base; for the other
						// write paths / the disk base every length near both ends and every 97th in between
						sparse := len(raw) > 300 && n > 40 && n < len(raw)-40 && n%97 != 0
						if sparse && !(w.Chunks == 0 && cfg.Base == "mem") {
							continue
						}
						item++
						if !c.Mine(item) {
							continue
						}
						if c.Expired() {
							c.NotExhaustive("deadline in truncation sweep")
							return
						}
						reads := []rpath{rpaths[0], rpaths[2]}
						if sparse {
							reads = reads[:1]
						}
						for _, r := range reads {
							c.R.Evaluations++
							c.Count("truncations", 1)
							res := tamperOne(cfg, raw[:n], r)
							if res.Panic != "" || res.Err == "" {
								kind := "tamper-truncation-accepted"
								if res.Panic != "" {
									kind = "tamper-truncation-panic"
								}
								report(finding{kind, "truncated or emptied stored bytes are answered with an error - never with data and never with a panic", fmt.Sprintf("stored %d bytes (plaintext %d bytes, written via %s) truncated to %d, read via %s: err=%q panic=%q data=%q", len(raw), len(p), w.Name, n, r.Name, res.Err, res.Panic, short(res.Data)),
									witness{Config: cfg, Part: "truncate", PlainN: len(p), W: w.Name, R: r.Name, Trunc: n}})
							}
						}
					}
					// single-byte corruptions
					if cfg.Base == "disk" {
						continue
					}
					xors := make([]int, 0, 255)
					for x := 1; x < 256; x++ {
						xors = append(xors, x)
					}
					if len(raw) > 300 || (!c.Thorough() && pi > 1 && w.Chunks != 0) {
						xors = []int{0x01, 0x80, 0xff}
					}
					for pos := 0; pos < len(raw); pos++ {
						if len(raw) > 300 && pos > 64 && pos < len(raw)-64 && pos%53 != 0 {
							continue
						}
						item++
						if !c.Mine(item) {
							continue
						}
						if c.Expired() {
							c.NotExhaustive("deadline in corruption sweep")
							return
						}
						for _, x := range xors {
							mod := append([]byte(nil), raw...)
							mod[pos] ^= byte(x)
							r := rpaths[(pos+x)%2*2] // alternate ReadFile / Reader(buf7)
							c.R.Evaluations++
							c.Count("corruptions", 1)
							res := tamperOne(cfg, mod, r)
							if res.Panic != "" || res.Err == "" {
								kind := "tamper-corruption-accepted"
								if res.Panic != "" {
									kind = "tamper-corruption-panic"
								}
								report(finding{kind, "modified stored bytes are answered with an error - never with data and never with a panic", fmt.Sprintf("stored %d bytes, byte %d xor %#x, read via %s: err=%q panic=%q data=%q", len(raw), pos, x, r.Name, res.Err, res.Panic, short(res.Data)),
									witness{Config: cfg, Part: "corrupt", PlainN: len(p), W: w.Name, R: r.Name, Pos: pos, Xor: x}})
							}
						}
					}
				}
			}
			// part D: name-space lock-step (one shard per configuration; memory base: the disk
			// name-space is C02's subject and the encrypted filespace only delegates)
			item++
			if c.Mine(item) && cfg.Base == "mem" {
				namespace(c, cfg, report)
			}
		}
	}
	c.R.Distinct = c.R.Evaluations
	c.Sample(map[string]interface{}{"config": cfgs[0], "plaintext_len": 17, "write": "Writer/3chunks", "read": "Reader/buf7", "then": "every truncation 0..N-1 and every byte xor 1..255 of the stored bytes"})
}

func replay(w json.RawMessage) (*fw.Violation, error) {
	rand.Reader = &counterReader{}
	var cw struct {
		Program string   `json:"program"`
		Spec    ConcSpec `json:"spec"`
		Choices []int    `json:"choices"`
	}
	if err := json.Unmarshal(w, &cw); err == nil && strings.HasPrefix(cw.Program, "conc/") {
		return explore.ReplayProgram(mkConc(cw.Spec), cw.Choices)
	}
	var wit witness
	if err := json.Unmarshal(w, &wit); err != nil {
		return nil, err
	}
	var plain string
	for _, p := range plaintexts(true) {
		if len(p) == wit.PlainN {
			plain = p
		}
	}
	find := func(name string) wpath {
		for _, x := range wpaths {
			if x.Name == name {
				return x
			}
		}
		return wpaths[0]
	}
	findR := func(name string) rpath {
		for _, x := range rpaths {
			if x.Name == name {
				return x
			}
		}
		return rpaths[0]
	}
	mkv := func(kind, clause, detail string) *fw.Violation {
		return &fw.Violation{Property: "C05", Clause: clause, Signature: "C05/" + kind + "/replay", Detail: detail}
	}
	switch wit.Part {
	case "roundtrip":
		if fs := roundTrip(wit.Config, plain, find(wit.W), wit.Prev, true); len(fs) > 0 {
			return mkv(fs[0].kind, fs[0].clause, fs[0].detail), nil
		}
	case "wrongkey":
		if fs := wrongKey(wit.Config, []config{*wit.Other}, plain); len(fs) > 0 {
			return mkv(fs[0].kind, fs[0].clause, fs[0].detail), nil
		}
	case "sharedbuf":
		if fs := sharedBuffers(wit.Config, plain); len(fs) > 0 {
			return mkv(fs[0].kind, fs[0].clause, fs[0].detail), nil
		}
	case "handles":
		if fs := writerHandles(wit.Config, *wit.Handle); len(fs) > 0 {
			return mkv(fs[0].kind, fs[0].clause, fs[0].detail), nil
		}
	case "truncate", "corrupt":
		raw := storedBytes(wit.Config, plain, find(wit.W))
		if wit.Part == "truncate" {
			raw = raw[:wit.Trunc]
		} else {
			raw[wit.Pos] ^= byte(wit.Xor)
		}
		res := tamperOne(wit.Config, raw, findR(wit.R))
		if res.Panic != "" || res.Err == "" {
			return mkv("tamper", "bad stored bytes are answered with an error", fmt.Sprintf("err=%q panic=%q data=%q", res.Err, res.Panic, short(res.Data))), nil
		}
	case "alternation":
		return nil, fmt.Errorf("alternation witnesses are replayed by re-running the check")
	case "namespace":
		return nil, fmt.Errorf("name-space witnesses are replayed by re-running the check")
	}
	return nil, nil
}

func init() {
	fw.Register(&fw.Check{ID: "C05", Level: "fault_enumeration",
		Rule: "configurations = cipher{raw AES-GCM, tagged} x base{memory, disk} x secret{alpha,beta,''} x salt{salt1,salt2,''} x host-binding{off,on}; plaintexts of length {0,1,16,17,4096,70000,(thorough: 15,33,140001)}; write path {WriteFile, Writer 1/3 chunks} x previous content {absent, shorter, longer} x read path {ReadFile, Reader buf 1/7/4096}, every case also across a child view (parent writes / child reads, child writes / parent and an independent same-settings filespace read); every other (secret,salt) of the pool plus one concatenation-colliding pair, and 7 settings with long key material (64- and 100-byte common prefixes of secret||salt; other salt, no salt, other tail) read pairwise; two filespaces built from one caller-owned secret buffer with spare capacity and different salts, and the caller wiping its buffers afterwards; EVERY truncation length 0..N-1 (also of the 70 KB / 140 KB files on the whole-file paths; the other paths of long files: every length near both ends, every 97th between) and EVERY single-byte corruption (N positions x 255 values for short files; 3 values and strided interior positions for files > 300 bytes) of the stored bytes, each read on a fresh base; two filespaces (different secrets) x two files each written in alternation over all plaintext pairs x write-path pairs; name-space ops in lock-step with the tree model; plus 2-3 filespaces with different (and equal) secrets used from concurrent goroutines (write then read own file, then try every other tenant's secret on it) under every schedule with <= 2 (quick) / 3 (thorough) preemptions, with the race oracle on the encryptfs packages. distinct = cases, all non-trivial (each runs the real cipher)",
		Run:  run, Replay: replay,
		Assumptions: []string{"crypto/rand.Reader is replaced by a deterministic never-repeating stream (nonce freshness stays observable)", "cryptographic strength is out of scope; host binding is exercised but a binding mismatch is not required to fail (the statement does not demand it)", "secrecy = stored bytes do not contain the plaintext (>= 8 bytes) nor its first 16 bytes"}})
}
