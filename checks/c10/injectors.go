package c10

import (
	"fmt"
	"strings"

	"github.com/goatcms/goatcore/app"
	"github.com/goatcms/goatcore/app/dependency"
	"github.com/goatcms/goatcore/app/scope/datascope"

	"verif/fsx"
)

// Secondary injectors (AddInjectors): a provider's InjectTo also fills the fields that belong to the
// registered data-scope injectors (the application registers four of them: app, args, config,
// filespace). "A failed or optional-and-missing resolution never changes the outcome of any other or
// later request" - for every sequence of <= 3 injection requests from the pool below, every request
// answers as it does when it is the only one, the data scope stays usable, and nothing blocks.

type injGood struct {
	Svc  interface{} `dependency:"svc"`
	Host string      `config:"host"`
}
type injMissing struct {
	Svc  interface{} `dependency:"svc"`
	Host string      `config:"host"`
	Port string      `config:"port"` // required, never set
}
type injOptional struct {
	Svc  interface{} `dependency:"svc"`
	Host string      `config:"host"`
	Port interface{} `config:"?port"` // optional, never set
}
type injUnsettable struct {
	Svc  interface{} `dependency:"svc"`
	host string      `config:"host"` //nolint (unexported on purpose: cannot be set)
}
type injMissingDep struct {
	Host string      `config:"host"`
	None interface{} `dependency:"no-such-service"`
}

var injectorPool = []string{"good", "missing-config-key", "optional-config-key", "unsettable-field", "missing-dependency"}

// InjSeq is one sequence (also the replay witness).
type InjSeq struct {
	Requests []string `json:"injector_requests"`
}

func runInjectorSeq(seq InjSeq) (f *finding) {
	var detail string
	res := fsx.RunSeq(func() {
		defer func() {
			if r := recover(); r != nil {
				detail = fmt.Sprintf("panic: %v", r)
			}
		}()
		cfg := datascope.New(map[interface{}]interface{}{"host": "h1"})
		dp := dependency.NewProvider("dependency")
		built := 0
		marker := &obj{Src: "svc"}
		dp.AddFactory("svc", func(app.DependencyProvider) (interface{}, error) { built++; return marker, nil })
		if err := dp.AddInjectors([]app.Injector{datascope.NewInjector("config", cfg)}); err != nil {
			detail = "harness: " + err.Error()
			return
		}
		for i, r := range seq.Requests {
			var err error
			var svc interface{}
			host := ""
			wantErr := false
			switch r {
			case "good":
				o := &injGood{}
				err = dp.InjectTo(o)
				svc, host = o.Svc, o.Host
			case "missing-config-key":
				o := &injMissing{}
				err = dp.InjectTo(o)
				wantErr = true
			case "optional-config-key":
				o := &injOptional{}
				err = dp.InjectTo(o)
				svc, host = o.Svc, o.Host
				if err == nil && o.Port != nil {
					detail = fmt.Sprintf("request %d (%s): the optional, missing key was set to %v", i, r, o.Port)
					return
				}
			case "unsettable-field":
				o := &injUnsettable{}
				err = dp.InjectTo(o)
				wantErr = true
				_ = o.host
			case "missing-dependency":
				o := &injMissingDep{}
				err = dp.InjectTo(o)
				wantErr = true
			}
			if wantErr != (err != nil) {
				detail = fmt.Sprintf("request %d (%s) of %v: error = %v, expected an error: %v", i, r, seq.Requests, err, wantErr)
				return
			}
			if !wantErr && (svc != interface{}(marker) || host != "h1") {
				detail = fmt.Sprintf("request %d (%s) of %v: injected svc=%v host=%q, want the singleton and \"h1\"", i, r, seq.Requests, svc, host)
				return
			}
			// the data scope behind the injector stays usable after every request
			if v := cfg.Value("host"); v != "h1" {
				detail = fmt.Sprintf("after request %d (%s): config.Value(host) = %v", i, r, v)
				return
			}
			cfg.SetValue("probe", i)
			lk := cfg.LockData()
			lk.Value("probe")
			lk.Commit()
		}
		if built > 1 {
			detail = fmt.Sprintf("requests %v: the factory ran %d times", seq.Requests, built)
		}
	})
	if detail == "" && (res.Deadlock || res.Horizon) {
		detail = fmt.Sprintf("requests %v: a request (or the data scope behind the injector) blocked forever: %v", seq.Requests, res.Blocked)
	}
	if detail == "" && len(res.Panics) > 0 {
		detail = "panic: " + res.Panics[0].Value
	}
	if detail == "" {
		return nil
	}
	if strings.HasPrefix(detail, "harness:") {
		return &finding{"harness", "", detail}
	}
	return &finding{"injectors/failed-request-changes-later-requests", "a failed or optional-and-missing resolution never changes the outcome of any other or later request", detail}
}

func injectorSeqs() []InjSeq {
	var out []InjSeq
	var rec func(cur []string)
	rec = func(cur []string) {
		if len(cur) > 0 {
			out = append(out, InjSeq{append([]string{}, cur...)})
		}
		if len(cur) == 3 {
			return
		}
		for _, r := range injectorPool {
			rec(append(cur, r))
		}
	}
	rec(nil)
	return out
}

// Two containers with DIFFERENT tag names in one process (an application container and a plugin
// container) inject the same struct types: each fills exactly the fields that carry its own tag, in
// either order, and an injection is a resolution (it freezes the container it was asked of).

type twoTagsAB struct {
	L interface{} `dependency:"svc"`
	S interface{} `plugin:"store"`
	O interface{} `plugin:"?absent"`
}
type twoTagsBA struct {
	S interface{} `plugin:"store"`
	L interface{} `dependency:"svc"`
}

func runTagNames() (f *finding) {
	defer func() {
		if r := recover(); r != nil {
			f = &finding{"panic", "no request panics", fmt.Sprintf("two tag names: panic %v", r)}
		}
	}()
	mk := func() (app.DependencyProvider, app.DependencyProvider, *obj, *obj) {
		a, b := dependency.NewProvider("dependency"), dependency.NewProvider("plugin")
		ma, mb := &obj{Src: "svc"}, &obj{Src: "store"}
		a.AddFactory("svc", func(app.DependencyProvider) (interface{}, error) { return ma, nil })
		b.AddFactory("store", func(app.DependencyProvider) (interface{}, error) { return mb, nil })
		return a, b, ma, mb
	}
	bad := func(format string, args ...interface{}) *finding {
		return &finding{"tag-names/injection-incomplete", "every later request (direct or by injection into tagged fields) yields that same instance; after the first resolution all further definitions are refused", fmt.Sprintf(format, args...)}
	}
	for round := 0; round < 2; round++ { // (a second round: whatever the first one cached per type)
		a, b, ma, mb := mk()
		h := &twoTagsAB{}
		if err := a.InjectTo(h); err != nil {
			return bad("container 'dependency' InjectTo(twoTagsAB): %v", err)
		}
		if err := b.InjectTo(h); err != nil {
			return bad("container 'plugin' InjectTo(twoTagsAB): %v", err)
		}
		if h.L != interface{}(ma) || h.S != interface{}(mb) || h.O != nil {
			return bad("round %d: a struct injected by container 'dependency' and then by container 'plugin' holds L=%v S=%v O=%v (want the two singletons and nil)", round, h.L, h.S, h.O)
		}
		if err := b.AddFactory("late", func(app.DependencyProvider) (interface{}, error) { return nil, nil }); err == nil {
			return bad("round %d: container 'plugin' accepted a definition after it had injected a struct", round)
		}
		a2, b2, ma2, mb2 := mk()
		g := &twoTagsBA{}
		if err := b2.InjectTo(g); err != nil {
			return bad("container 'plugin' InjectTo(twoTagsBA): %v", err)
		}
		if err := a2.InjectTo(g); err != nil {
			return bad("container 'dependency' InjectTo(twoTagsBA): %v", err)
		}
		if g.L != interface{}(ma2) || g.S != interface{}(mb2) {
			return bad("round %d: a struct injected by 'plugin' and then by 'dependency' holds L=%v S=%v", round, g.L, g.S)
		}
		if err := a2.AddFactory("late", func(app.DependencyProvider) (interface{}, error) { return nil, nil }); err == nil {
			return bad("round %d: container 'dependency' accepted a definition after it had injected a struct", round)
		}
	}
	return nil
}
