package c10

import (
	"fmt"
	"sort"

	"github.com/goatcms/goatcore/app"
	"github.com/goatcms/goatcore/app/goatapp"
	"github.com/goatcms/goatcore/app/modules/commonm"
	"github.com/goatcms/goatcore/app/modules/ocm"
	"github.com/goatcms/goatcore/app/modules/pipelinem"
	"github.com/goatcms/goatcore/app/modules/terminalm"
)

// "An explicit definition always wins over a default one regardless of registration order" - for the
// definitions the LIBRARY itself makes (the application object registered by goatapp, the services the
// bundled modules register): they are documented as defaults, so an application's explicit Set /
// AddFactory of the same name, made before or after the library's registration, must be accepted and
// must be what Get returns. Exhaustive over all library-registered names x {Set, AddFactory} x order.

func libraryModules() []app.Module {
	return []app.Module{terminalm.NewModule(), commonm.NewModule(), ocm.NewModule(), pipelinem.NewModule()}
}

// AppDefaultCase is one case (also the replay witness).
type AppDefaultCase struct {
	Name   string `json:"service"`
	How    string `json:"how"`   // set | factory
	Before bool   `json:"before"` // explicit definition made before the modules register their defaults
}

func libraryNames() ([]string, error) {
	mapp, err := goatapp.NewMockupApp(goatapp.Params{})
	if err != nil {
		return nil, err
	}
	for _, m := range libraryModules() {
		if err := m.RegisterDependencies(mapp); err != nil {
			return nil, err
		}
	}
	ks, err := mapp.DependencyProvider().Keys()
	if err != nil {
		return nil, err
	}
	l := append([]string{}, ks...)
	sort.Strings(l)
	return l, nil
}

func runAppDefault(cs AppDefaultCase) (f *finding) {
	defer func() {
		if r := recover(); r != nil {
			f = &finding{"panic", "no request panics", fmt.Sprintf("library default %+v: panic %v", cs, r)}
		}
	}()
	mapp, err := goatapp.NewMockupApp(goatapp.Params{})
	if err != nil {
		return &finding{"harness", "", err.Error()}
	}
	dp := mapp.DependencyProvider()
	marker := &obj{Src: "explicit-definition-of-the-application"}
	runs := 0
	define := func() error {
		if cs.How == "set" {
			return dp.Set(cs.Name, marker)
		}
		return dp.AddFactory(cs.Name, func(app.DependencyProvider) (interface{}, error) { runs++; return marker, nil })
	}
	register := func() {
		for _, m := range libraryModules() {
			m.RegisterDependencies(mapp) // (a default that is refused because an explicit definition exists is fine)
		}
	}
	if cs.Before {
		if err := define(); err != nil {
			return &finding{"library-default/explicit-definition-refused", "an explicit definition always wins over a default one regardless of registration order", fmt.Sprintf("%+v: explicit definition made BEFORE the modules registered was refused: %v", cs, err)}
		}
		register()
	} else {
		register()
		if err := define(); err != nil {
			return &finding{"library-default/explicit-definition-refused", "an explicit definition always wins over a default one regardless of registration order", fmt.Sprintf("%+v: the library registered %q first (as a default); the application's explicit definition was refused: %v", cs, cs.Name, err)}
		}
	}
	got, err := dp.Get(cs.Name)
	if err != nil {
		return &finding{"library-default/get-failed", "an explicit definition always wins over a default one", fmt.Sprintf("%+v: Get failed: %v", cs, err)}
	}
	if got != interface{}(marker) {
		return &finding{"library-default/default-beats-explicit", "an explicit definition always wins over a default one regardless of registration order", fmt.Sprintf("%+v: Get(%q) returned %T instead of the application's explicit definition (explicit factory ran %d times)", cs, cs.Name, got, runs)}
	}
	return nil
}

func appDefaultCases() ([]AppDefaultCase, error) {
	names, err := libraryNames()
	if err != nil {
		return nil, err
	}
	var l []AppDefaultCase
	for _, n := range names {
		for _, how := range []string{"set", "factory"} {
			l = append(l, AppDefaultCase{n, how, false})
			if n != app.AppService { // (the application object is registered by the constructor itself)
				l = append(l, AppDefaultCase{n, how, true})
			}
		}
	}
	return l, nil
}
