// Package c10 decides C10: the dependency container (lazy singletons, fixed precedence,
// safe failure). Engine: exhaustive enumeration of bounded programs (ordered definition
// calls x request sequences) executed on the real provider and on a reference interpreter.
package c10

import (
	"reflect"
	"encoding/json"
	"fmt"
	"sort"
	"strings"

	"github.com/goatcms/goatcore/app"
	"github.com/goatcms/goatcore/app/dependency"

	"verif/fw"
)

var names = []string{"A", "B", "C"}

// Def is one definition call.
type Def struct {
	Name    string `json:"name"`
	Default bool   `json:"default"`
	Kind    string `json:"kind"`             // inst | const | fail | nil | req | tol | injreq | injopt
	Target  string `json:"target,omitempty"` // for req/tol/injreq/injopt
}

func (d Def) slot() string {
	if d.Default {
		return "default:" + d.Name
	}
	return "explicit:" + d.Name
}

func (d Def) String() string {
	fn := map[bool]map[bool]string{false: {true: "Set", false: "AddFactory"}, true: {true: "SetDefault", false: "AddDefaultFactory"}}[d.Default][d.Kind == "inst"]
	if d.Kind == "inst" {
		return fmt.Sprintf("%s(%s)", fn, d.Name)
	}
	if d.Target != "" {
		return fmt.Sprintf("%s(%s, %s->%s)", fn, d.Name, d.Kind, d.Target)
	}
	return fmt.Sprintf("%s(%s, %s)", fn, d.Name, d.Kind)
}

// Req is one request.
type Req struct {
	Kind   string   `json:"kind"` // get | inject | keys | latedef
	Name   string   `json:"name,omitempty"`
	Fields []string `json:"fields,omitempty"` // inject: field tags, e.g. "A", "?B"
	Def    *Def     `json:"def,omitempty"`
}

func (r Req) String() string {
	switch r.Kind {
	case "get":
		return "Get(" + r.Name + ")"
	case "inject":
		return "InjectTo{" + strings.Join(r.Fields, ",") + "}"
	case "keys":
		return "Keys()"
	}
	return "late " + r.Def.String()
}

// Program = definitions then requests.
type Program struct {
	Defs []Def `json:"defs"`
	Reqs []Req `json:"reqs"`
	// Static: the explicit definitions are handed over as ready-made maps to TWO static providers that
	// share the factories map; every request goes to the first, then to the second provider
	Static bool `json:"two_static_providers,omitempty"`
	// Prefilled: the target objects of InjectTo requests already hold an object in every tagged field
	Prefilled bool `json:"prefilled_targets,omitempty"`
}

func (p Program) String() string {
	var l []string
	for _, d := range p.Defs {
		l = append(l, d.String())
	}
	l = append(l, "|")
	for _, r := range p.Reqs {
		l = append(l, r.String())
	}
	if p.Prefilled {
		l = append(l, "(injection targets pre-filled)")
	}
	return strings.Join(l, " ")
}

type obj struct {
	Src string
	N   int
}

// outcome of one request, in comparable form
type outcome struct {
	ok     bool
	vals   []string // per value: "<src>#<n>" or "-" (unset)
	keys   string
	refuse bool
}

func (o outcome) String() string {
	return fmt.Sprintf("{ok=%v vals=%v keys=%s}", o.ok, o.vals, o.keys)
}

func id(o *obj) string {
	if o == nil {
		return "-"
	}
	return fmt.Sprintf("%s#%d", o.Src, o.N)
}

// ---------- reference interpreter ----------

type model struct {
	explicit, deflt map[string]*Def
	memo            map[string]*obj
	inst            map[string]*obj // instances given to Set/SetDefault by slot
	count           map[string]int
	frozen          bool
	defined         map[string]bool
}

func newModel() *model {
	return &model{explicit: map[string]*Def{}, deflt: map[string]*Def{}, memo: map[string]*obj{}, inst: map[string]*obj{}, count: map[string]int{}, defined: map[string]bool{}}
}

func (m *model) define(d Def) bool {
	if m.frozen {
		return false
	}
	tbl := m.explicit
	if d.Default {
		tbl = m.deflt
	}
	if tbl[d.Name] != nil {
		return false
	}
	dd := d
	tbl[d.Name] = &dd
	m.defined[d.Name] = true
	return true
}

func (m *model) resolve(n string, stack []string) (*obj, bool) {
	if o, ok := m.memo[n]; ok {
		return o, true
	}
	d := m.explicit[n]
	if d == nil {
		d = m.deflt[n]
	}
	if d == nil {
		return nil, false
	}
	if d.Kind == "inst" {
		o := &obj{Src: d.slot(), N: 0}
		m.memo[n] = o
		return o, true
	}
	for _, s := range stack {
		if s == n {
			return nil, false // cycle: error instead of recursion
		}
	}
	m.count[d.slot()]++
	cnt := m.count[d.slot()]
	st := append(append([]string{}, stack...), n)
	switch d.Kind {
	case "fail", "nil":
		return nil, false
	case "req", "injreq":
		if _, ok := m.resolve(d.Target, st); !ok {
			return nil, false
		}
	case "tol", "injopt":
		m.resolve(d.Target, st)
	}
	o := &obj{Src: d.slot(), N: cnt}
	m.memo[n] = o
	return o, true
}

func (m *model) request(r Req) outcome {
	switch r.Kind {
	case "get":
		m.frozen = true
		o, ok := m.resolve(r.Name, nil)
		return outcome{ok: ok, vals: []string{id(o)}}
	case "inject":
		m.frozen = true
		out := outcome{ok: true}
		for _, f := range r.Fields {
			opt := strings.HasPrefix(f, "?")
			o, ok := m.resolve(strings.TrimPrefix(f, "?"), nil)
			if !ok {
				out.vals = append(out.vals, "-")
				if !opt {
					out.ok = false
					for len(out.vals) < len(r.Fields) {
						out.vals = append(out.vals, "-")
					}
					return out
				}
				continue
			}
			out.vals = append(out.vals, id(o))
		}
		return out
	case "keys":
		var l []string
		for k := range m.defined {
			l = append(l, k)
		}
		sort.Strings(l)
		return outcome{ok: true, keys: strings.Join(l, ",")}
	case "latedef":
		ok := m.define(*r.Def)
		return outcome{ok: ok}
	}
	return outcome{}
}

// ---------- implementation driver ----------

type injStruct struct {
	F0 interface{} `dependency:"A"`
	F1 interface{} `dependency:"?B"`
}

type impl struct {
	dp    app.DependencyProvider
	count map[string]int
	depth int
	maxDepth int
	insts map[string]*obj
}

type s1req struct {
	X interface{} `dependency:"A"`
}
type s1opt struct {
	X interface{} `dependency:"?A"`
}

// factory builds the real factory function for a definition.
func (im *impl) factory(d Def) app.Factory {
	slot := d.slot()
	return func(dp app.DependencyProvider) (interface{}, error) {
		im.count[slot]++
		cnt := im.count[slot]
		im.depth++
		if im.depth > im.maxDepth {
			im.maxDepth = im.depth
		}
		defer func() { im.depth-- }()
		if im.depth > 40 {
			return nil, fmt.Errorf("harness: recursion depth exceeded")
		}
		switch d.Kind {
		case "fail":
			return nil, fmt.Errorf("factory-failed")
		case "nil":
			return nil, nil
		case "req":
			if _, err := dp.Get(d.Target); err != nil {
				return nil, err
			}
		case "tol":
			dp.Get(d.Target)
		case "injreq", "injopt":
			tag := d.Target
			if d.Kind == "injopt" {
				tag = "?" + tag
			}
			if _, err := injectDyn(dp, []string{tag}); err != nil {
				return nil, err
			}
		}
		return &obj{Src: slot, N: cnt}, nil
	}
}

// struct types for every tag combination used (reflection needs real types)
type tA struct {
	X interface{} `dependency:"A"`
}
type tB struct {
	X interface{} `dependency:"B"`
}
type tC struct {
	X interface{} `dependency:"C"`
}
type toA struct {
	X interface{} `dependency:"?A"`
}
type toB struct {
	X interface{} `dependency:"?B"`
}
type toC struct {
	X interface{} `dependency:"?C"`
}
type tAoB struct {
	X interface{} `dependency:"A"`
	Y interface{} `dependency:"?B"`
}
type toAB struct {
	X interface{} `dependency:"?A"`
	Y interface{} `dependency:"B"`
}
type tAB struct {
	X interface{} `dependency:"A"`
	Y interface{} `dependency:"B"`
}
type tBoCA struct {
	X interface{} `dependency:"B"`
	Y interface{} `dependency:"?C"`
	Z interface{} `dependency:"A"`
}

// prefill: the target objects of injections are recycled ones - every tagged field already holds an
// object (stale) when InjectTo is called. A resolved dependency replaces it; a field the provider leaves
// alone (optional and missing, or after a failure) is read back as "nothing injected".
var prefill bool
var stale = &obj{Src: "stale-object-left-in-the-target"}

func pre(target interface{}) {
	if !prefill {
		return
	}
	v := reflect.ValueOf(target).Elem()
	for i := 0; i < v.NumField(); i++ {
		v.Field(i).Set(reflect.ValueOf(stale))
	}
}

func injectDyn(dp app.Injector, tags []string) ([]interface{}, error) {
	key := strings.Join(tags, ",")
	get := func(v interface{}) interface{} { return v }
	switch key {
	case "A":
		var s tA
		pre(&s)
		err := dp.InjectTo(&s)
		return []interface{}{get(s.X)}, err
	case "B":
		var s tB
		pre(&s)
		err := dp.InjectTo(&s)
		return []interface{}{s.X}, err
	case "C":
		var s tC
		pre(&s)
		err := dp.InjectTo(&s)
		return []interface{}{s.X}, err
	case "?A":
		var s toA
		pre(&s)
		err := dp.InjectTo(&s)
		return []interface{}{s.X}, err
	case "?B":
		var s toB
		pre(&s)
		err := dp.InjectTo(&s)
		return []interface{}{s.X}, err
	case "?C":
		var s toC
		pre(&s)
		err := dp.InjectTo(&s)
		return []interface{}{s.X}, err
	case "A,?B":
		var s tAoB
		pre(&s)
		err := dp.InjectTo(&s)
		return []interface{}{s.X, s.Y}, err
	case "?A,B":
		var s toAB
		pre(&s)
		err := dp.InjectTo(&s)
		return []interface{}{s.X, s.Y}, err
	case "A,B":
		var s tAB
		pre(&s)
		err := dp.InjectTo(&s)
		return []interface{}{s.X, s.Y}, err
	case "B,?C,A":
		var s tBoCA
		pre(&s)
		err := dp.InjectTo(&s)
		return []interface{}{s.X, s.Y, s.Z}, err
	}
	panic("no struct type for tags " + key)
}

func (im *impl) define(d Def) bool {
	var err error
	switch {
	case d.Kind == "inst" && !d.Default:
		o := &obj{Src: d.slot()}
		err = im.dp.Set(d.Name, o)
	case d.Kind == "inst" && d.Default:
		o := &obj{Src: d.slot()}
		err = im.dp.SetDefault(d.Name, o)
	case !d.Default:
		err = im.dp.AddFactory(d.Name, im.factory(d))
	default:
		err = im.dp.AddDefaultFactory(d.Name, im.factory(d))
	}
	return err == nil
}

func val(v interface{}) string {
	if v == nil {
		return "-"
	}
	if o, ok := v.(*obj); ok {
		return id(o)
	}
	return fmt.Sprintf("?%T", v)
}

func (im *impl) request(r Req) outcome {
	switch r.Kind {
	case "get":
		v, err := im.dp.Get(r.Name)
		if err != nil {
			return outcome{ok: false, vals: []string{"-"}}
		}
		return outcome{ok: true, vals: []string{val(v)}}
	case "inject":
		vs, err := injectDyn(im.dp, r.Fields)
		out := outcome{ok: err == nil}
		for _, v := range vs {
			if v == interface{}(stale) {
				v = nil
			}
			out.vals = append(out.vals, val(v))
		}
		return out
	case "keys":
		ks, err := im.dp.Keys()
		l := append([]string{}, ks...)
		sort.Strings(l)
		return outcome{ok: err == nil, keys: strings.Join(l, ",")}
	case "latedef":
		return outcome{ok: im.define(*r.Def)}
	}
	return outcome{}
}

type finding struct{ kind, clause, detail string }

// runProgram executes a program on both and compares step by step.
func hasInject(rs []Req) bool {
	for _, r := range rs {
		if r.Kind == "inject" {
			return true
		}
	}
	return false
}

func runProgram(p Program) (f *finding) {
	prefill = p.Prefilled
	defer func() {
		prefill = false
		if f != nil && p.Prefilled {
			f.kind = "prefilled-target/" + f.kind
		}
	}()
	defer func() {
		if r := recover(); r != nil {
			f = &finding{"panic", "no request panics", fmt.Sprintf("program %s: panic %v", p, r)}
		}
	}()
	m := newModel()
	im := &impl{dp: dependency.NewProvider("dependency"), count: map[string]int{}, insts: map[string]*obj{}}
	for i, d := range p.Defs {
		mo, io := m.define(d), im.define(d)
		if mo != io {
			return &finding{"definition-" + map[bool]string{true: "accepted-but-should-be-refused", false: "refused-but-should-be-accepted"}[io], "definitions before the first resolution are accepted", fmt.Sprintf("program %s: definition %d (%s): provider accepted=%v, model accepted=%v", p, i, d, io, mo)}
		}
	}
	// lazy: nothing ran yet
	for s, n := range im.count {
		if n != 0 {
			return &finding{"factory-ran-before-first-request", "a factory runs only when it is first needed", fmt.Sprintf("program %s: factory %s ran %d times before any request", p, s, n)}
		}
	}
	seen := map[string]string{}
	for i, r := range p.Reqs {
		if r.Kind == "latedef" && !m.frozen {
			tbl := m.explicit
			if r.Def.Default {
				tbl = m.deflt
			}
			if tbl[r.Def.Name] != nil {
				return nil // a second definition of the same slot before any resolution: unspecified
			}
		}
		mo, io := m.request(r), im.request(r)
		if im.maxDepth > 40 {
			return &finding{"unbounded-recursion", "a cycle produces an error instead of recursion", fmt.Sprintf("program %s: factories nested deeper than 40", p)}
		}
		if r.Kind == "latedef" {
			if io.ok && !mo.ok {
				return &finding{"late-definition-accepted", "after the first resolution all further definitions are refused", fmt.Sprintf("program %s: request %d (%s) was accepted", p, i, r)}
			}
			if !io.ok && mo.ok {
				return &finding{"definition-refused-but-should-be-accepted", "definitions before the first resolution are accepted", fmt.Sprintf("program %s: request %d (%s) was refused although nothing was resolved yet", p, i, r)}
			}
			continue
		}
		if mo.ok != io.ok || mo.keys != io.keys || strings.Join(mo.vals, "|") != strings.Join(io.vals, "|") {
			kind := classify(p, r, mo, io, i)
			return &finding{kind, clauseFor(kind), fmt.Sprintf("program %s\nrequest %d %s: provider %v, reference %v", p, i, r, io, mo)}
		}
		_ = seen
	}
	// invocation counters
	for s, n := range m.count {
		// the reference re-runs a factory that failed; an implementation may also remember the
		// failure, so fewer runs are fine as long as it ran at all - more runs are not
		if im.count[s] > n {
			return &finding{"factory-ran-again", "a factory runs only when first needed and never again once it has produced an instance", fmt.Sprintf("program %s: factory %s ran %d times, reference %d", p, s, im.count[s], n)}
		}
		if n > 0 && im.count[s] == 0 {
			return &finding{"factory-never-ran", "a needed factory runs", fmt.Sprintf("program %s: factory %s never ran, reference %d", p, s, n)}
		}
	}
	for s, n := range im.count {
		if m.count[s] == 0 && n != 0 {
			return &finding{"factory-ran-unneeded", "a factory runs only when it is needed", fmt.Sprintf("program %s: factory %s ran %d times, reference 0", p, s, n)}
		}
	}
	return nil
}

// runStatic: two pre-defined (static) providers built over ONE caller-owned factories map (instances
// in separate maps). Each is a frozen container of its own: lazily built singletons per provider, all
// definitions refused, and resolving through one of them changes nothing for the other - in
// particular not the caller's map of definitions.
func runStatic(p Program) (f *finding) {
	defer func() {
		if r := recover(); r != nil {
			f = &finding{"panic", "no request panics", fmt.Sprintf("program %s (two static providers): panic %v", p, r)}
		}
	}()
	im1 := &impl{count: map[string]int{}, insts: map[string]*obj{}}
	factories := map[string]app.Factory{}
	inst1, inst2 := map[string]interface{}{}, map[string]interface{}{}
	m1, m2 := newModel(), newModel()
	m2.count = m1.count // the factory closures (and their counters) are shared
	for _, d := range p.Defs {
		if d.Default {
			return nil
		}
		if !m1.define(d) {
			return nil
		}
		m2.define(d)
		if d.Kind == "inst" {
			inst1[d.Name] = &obj{Src: d.slot()}
			inst2[d.Name] = &obj{Src: d.slot()}
		} else {
			factories[d.Name] = im1.factory(d)
		}
	}
	m1.frozen, m2.frozen = true, true
	var before []string
	for k := range factories {
		before = append(before, k)
	}
	sort.Strings(before)
	im1.dp = dependency.NewStaticProvider("dependency", factories, inst1, nil)
	im2 := &impl{dp: dependency.NewStaticProvider("dependency", factories, inst2, nil), count: im1.count, insts: im1.insts}
	for i, r := range p.Reqs {
		if r.Kind == "keys" {
			continue // (which names a static provider lists is not stated)
		}
		for pi, pair := range []struct {
			m  *model
			im *impl
		}{{m1, im1}, {m2, im2}} {
			mo, io := pair.m.request(r), pair.im.request(r)
			if im1.maxDepth > 40 {
				return &finding{"unbounded-recursion", "a cycle produces an error instead of recursion", fmt.Sprintf("program %s (two static providers): factories nested deeper than 40", p)}
			}
			if r.Kind == "latedef" {
				if io.ok {
					return &finding{"static/late-definition-accepted", "after the first resolution all further definitions are refused", fmt.Sprintf("program %s: static provider %d accepted %s", p, pi+1, r)}
				}
				continue
			}
			if mo.ok != io.ok || strings.Join(mo.vals, "|") != strings.Join(io.vals, "|") {
				return &finding{"static/" + classify(p, r, mo, io, i), "every later request yields that same instance; a resolution never changes the outcome of any other or later request", fmt.Sprintf("program %s\ntwo static providers over one factories map; request %d %s on provider %d: provider %v, reference %v", p, i, r, pi+1, io, mo)}
			}
		}
	}
	var after []string
	for k := range factories {
		after = append(after, k)
	}
	sort.Strings(after)
	if strings.Join(before, ",") != strings.Join(after, ",") {
		return &finding{"static/caller-definitions-changed", "a resolution never changes the outcome of any other or later request", fmt.Sprintf("program %s: the caller's factories map held [%s] before and [%s] after the requests", p, strings.Join(before, ","), strings.Join(after, ","))}
	}
	return nil
}

func classify(p Program, r Req, mo, io outcome, idx int) string {
	switch {
	case r.Kind == "keys":
		return "keys-differ"
	case mo.ok && !io.ok:
		if idx > 0 {
			return "later-request-fails-after-earlier-resolution"
		}
		return "resolvable-request-fails"
	case !mo.ok && io.ok:
		return "unresolvable-request-succeeds"
	}
	// both ok, values differ
	for i := range mo.vals {
		if i < len(io.vals) && mo.vals[i] != io.vals[i] {
			if strings.HasPrefix(mo.vals[i], "explicit:") && strings.HasPrefix(io.vals[i], "default:") {
				return "default-beats-explicit"
			}
			if strings.Split(mo.vals[i], "#")[0] == strings.Split(io.vals[i], "#")[0] {
				return "not-the-same-instance"
			}
		}
	}
	return "wrong-instance"
}

func clauseFor(kind string) string {
	switch kind {
	case "default-beats-explicit":
		return "an explicit definition always wins over a default one regardless of registration order"
	case "later-request-fails-after-earlier-resolution":
		return "a failed or optional-and-missing resolution never changes the outcome of any other or later request; every later request yields the same instance"
	case "not-the-same-instance":
		return "every later request yields that same instance"
	}
	return "request outcomes follow the definitions"
}

// ---------- enumeration ----------

func shapes(full bool) []Def {
	var out []Def
	out = append(out, Def{Kind: "inst"}, Def{Kind: "const"}, Def{Kind: "fail"})
	if full {
		out = append(out, Def{Kind: "nil"})
	}
	kinds := []string{"req", "tol", "injreq", "injopt"}
	if !full {
		kinds = []string{"req", "tol"}
	}
	for _, k := range kinds {
		for _, t := range names {
			out = append(out, Def{Kind: k, Target: t})
		}
	}
	return out
}

func requestPool() []Req {
	var out []Req
	for _, n := range names {
		out = append(out, Req{Kind: "get", Name: n})
	}
	out = append(out,
		Req{Kind: "inject", Fields: []string{"A"}}, Req{Kind: "inject", Fields: []string{"?B"}}, Req{Kind: "inject", Fields: []string{"A", "?B"}},
		Req{Kind: "inject", Fields: []string{"?A", "B"}}, Req{Kind: "inject", Fields: []string{"B", "?C", "A"}},
		Req{Kind: "keys"},
		Req{Kind: "latedef", Def: &Def{Name: "B", Kind: "inst"}}, Req{Kind: "latedef", Def: &Def{Name: "C", Default: true, Kind: "const"}},
		Req{Kind: "latedef", Def: &Def{Name: "A", Kind: "const"}}, Req{Kind: "latedef", Def: &Def{Name: "A", Default: true, Kind: "inst"}})
	return out
}

func reqSeqs(pool []Req, n int, f func([]Req)) {
	var rec func(cur []Req)
	rec = func(cur []Req) {
		if len(cur) > 0 {
			f(cur)
		}
		if len(cur) == n {
			return
		}
		for _, r := range pool {
			rec(append(append([]Req{}, cur...), r))
		}
	}
	rec(nil)
}

// defSeqs enumerates ordered sequences of <= n definition calls over distinct (name, explicit/default) slots.
func defSeqs(n int, sh []Def, f func([]Def)) {
	type slot struct {
		name string
		def  bool
	}
	var slots []slot
	for _, nm := range names {
		slots = append(slots, slot{nm, false}, slot{nm, true})
	}
	var rec func(cur []Def, used map[slot]bool)
	rec = func(cur []Def, used map[slot]bool) {
		f(cur)
		if len(cur) == n {
			return
		}
		for _, s := range slots {
			if used[s] {
				continue
			}
			used[s] = true
			for _, shp := range sh {
				d := shp
				d.Name, d.Default = s.name, s.def
				rec(append(append([]Def{}, cur...), d), used)
			}
			delete(used, s)
		}
	}
	rec(nil, map[slot]bool{})
}

func run(c *fw.Ctx) {
	pool := requestPool()
	type tier struct {
		ndefs   int
		full    bool
		nreqs   int
	}
	tiers := []tier{{2, true, 2}, {3, false, 1}}
	if c.Thorough() {
		tiers = []tier{{2, true, 3}, {3, true, 1}, {3, false, 2}, {4, false, 0}}
	}
	c.R.Info["tiers"] = fmt.Sprintf("%+v", tiers)
	item := 0
	report := func(f *finding, p Program) {
		sg := "C10/" + f.kind
		if c.Violated(sg) {
			c.Violate(&fw.Violation{Signature: sg})
			return
		}
		c.Violate(&fw.Violation{Property: "C10", Clause: f.clause, Signature: sg, Detail: f.detail, Witness: fw.JSON(p)})
	}
	for _, t := range tiers {
		var seqs [][]Req
		if t.nreqs == 0 { // widest definition bound: single Get requests only
			for _, n := range names {
				seqs = append(seqs, []Req{{Kind: "get", Name: n}}, []Req{{Kind: "get", Name: n}, {Kind: "get", Name: n}})
			}
		} else {
			reqSeqs(pool, t.nreqs, func(r []Req) { seqs = append(seqs, r) })
		}
		stop := false
		defSeqs(t.ndefs, shapes(t.full), func(defs []Def) {
			item++
			if stop || !c.Mine(item) {
				return
			}
			if c.Expired() {
				c.NotExhaustive("deadline")
				stop = true
				return
			}
			c.R.Programs++
			for _, rs := range seqs {
				p := Program{Defs: defs, Reqs: rs}
				c.R.Evaluations++
				if f := runProgram(p); f != nil {
					report(f, p)
				}
				if hasInject(rs) {
					// the same program with recycled (pre-filled) injection targets
					pp := p
					pp.Prefilled = true
					c.R.Evaluations++
					c.Count("prefilled_target_programs", 1)
					if f := runProgram(pp); f != nil {
						report(f, pp)
					}
				}
				if len(rs) <= 2 {
					sp := Program{Defs: defs, Reqs: rs, Static: true}
					static := true
					for _, d := range defs {
						if d.Default {
							static = false
						}
					}
					if static {
						c.R.Evaluations++
						c.Count("two_static_provider_programs", 1)
						if f := runStatic(sp); f != nil {
							report(f, sp)
						}
					}
				}
			}
			if item%50021 == 7 {
				c.Sample(Program{Defs: defs, Reqs: seqs[len(seqs)/3]}.String())
			}
		})
	}
	// secondary injectors: failed injections do not change later requests
	if c.Mine(9000002) {
		for _, sq := range injectorSeqs() {
			c.R.Evaluations++
			c.Count("injector_sequences", 1)
			if f := runInjectorSeq(sq); f != nil {
				if f.kind == "harness" {
					c.Infra("%s", f.detail)
					return
				}
				sg := "C10/" + f.kind
				if c.Violated(sg) {
					c.Violate(&fw.Violation{Signature: sg})
					continue
				}
				c.Violate(&fw.Violation{Property: "C10", Clause: f.clause, Signature: sg, Detail: f.detail, Witness: fw.JSON(sq)})
			}
		}
	}
	// containers with different tag names
	if c.Mine(9000003) {
		c.R.Evaluations++
		c.Count("tag_name_cases", 1)
		if f := runTagNames(); f != nil {
			sg := "C10/" + f.kind
			if !c.Violated(sg) {
				c.Violate(&fw.Violation{Property: "C10", Clause: f.clause, Signature: sg, Detail: f.detail, Witness: fw.JSON(map[string]interface{}{"tag_names": true})})
			} else {
				c.Violate(&fw.Violation{Signature: sg})
			}
		}
	}
	// the library's own registrations are defaults
	if c.Mine(9000001) {
		cases, err := appDefaultCases()
		if err != nil {
			c.Infra("library defaults: %v", err)
			return
		}
		c.R.Info["library_registered_names"] = len(cases)
		for _, cs := range cases {
			c.R.Evaluations++
			c.Count("library_default_cases", 1)
			if f := runAppDefault(cs); f != nil {
				sg := "C10/" + f.kind
				if c.Violated(sg) {
					c.Violate(&fw.Violation{Signature: sg})
					continue
				}
				c.Violate(&fw.Violation{Property: "C10", Clause: f.clause, Signature: sg, Detail: f.detail, Witness: fw.JSON(map[string]interface{}{"library_default": cs})})
			}
		}
	}
	c.R.Distinct = c.R.Evaluations
}

func replay(wj json.RawMessage) (*fw.Violation, error) {
	var tw struct {
		Tag bool `json:"tag_names"`
	}
	if err := json.Unmarshal(wj, &tw); err == nil && tw.Tag {
		if f := runTagNames(); f != nil {
			return &fw.Violation{Property: "C10", Clause: f.clause, Signature: "C10/" + f.kind, Detail: f.detail}, nil
		}
		return nil, nil
	}
	var iw InjSeq
	if err := json.Unmarshal(wj, &iw); err == nil && len(iw.Requests) > 0 {
		if f := runInjectorSeq(iw); f != nil {
			return &fw.Violation{Property: "C10", Clause: f.clause, Signature: "C10/" + f.kind, Detail: f.detail}, nil
		}
		return nil, nil
	}
	var lw struct {
		Case *AppDefaultCase `json:"library_default"`
	}
	if err := json.Unmarshal(wj, &lw); err == nil && lw.Case != nil {
		if f := runAppDefault(*lw.Case); f != nil {
			return &fw.Violation{Property: "C10", Clause: f.clause, Signature: "C10/" + f.kind, Detail: f.detail}, nil
		}
		return nil, nil
	}
	var p Program
	if err := json.Unmarshal(wj, &p); err != nil {
		return nil, err
	}
	run := runProgram
	if p.Static {
		run = runStatic
	}
	if f := run(p); f != nil {
		return &fw.Violation{Property: "C10", Clause: f.clause, Signature: "C10/" + f.kind, Detail: f.detail}, nil
	}
	return nil, nil
}

func init() {
	fw.Register(&fw.Check{ID: "C10", Level: "exploration",
		Rule: "programs = every ordered sequence of <=2..4 definition calls (Set/SetDefault/AddFactory/AddDefaultFactory over names {A,B,C}, one explicit and one default slot per name, factory shapes {const, fail, nil, requires X, tolerates X, injects X required, injects ?X} for every target X incl. self) x every sequence of <=2..3 requests from a 13-entry pool (Get, InjectTo with required/optional tags, Keys, late definitions); each program is run on the real provider and on a reference interpreter (memoised resolver, explicit-over-default, frozen after first resolution, cycle = error) and compared request by request (outcome class, instance identity, invocation counters, recursion depth); every program of explicit definitions with <=2 requests additionally on TWO static providers (NewStaticProvider) built over one caller-owned factories map, each request issued on the first and then the second, each compared with a frozen reference of its own, and the caller's map compared before/after. distinct = programs x request sequences",
		Run: run, Replay: replay,
		Assumptions: []string{"two explicit (or two default) definitions of the same name are not generated: the statement does not say which wins", "error texts are never compared"}})
}
