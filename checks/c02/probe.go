package c02

import (
	"fmt"
	"os"
	"path/filepath"
	"sort"

	"github.com/goatcms/goatcore/filesystem/filespace/diskfs"

	"verif/fsx"
	"verif/models/treefs"
)

// Retained results: the in-memory backend hands out private snapshots - a byte slice or a listing a
// caller got keeps its content whatever is done afterwards. The same program on the disk backend must
// see the same: a result of ReadFile / ReadDir is held across EVERY later operation (other reads
// included - a backend may serve reads from re-used buffers) and re-inspected.

// ProbeWit is the replay witness of a retained-result probe.
type ProbeWit struct {
	State  map[string]string `json:"state"`
	Read   treefs.Op         `json:"held_read"`
	Follow treefs.Op         `json:"then"`
}

// runDiskProbe: materialise t on disk, issue rd, keep its result, issue follow, re-inspect.
func runDiskProbe(t *treefs.Node, rd, follow treefs.Op) (bad string) {
	scratchSeq++
	base := filepath.Join(scratchBase(), fmt.Sprintf("c02p-%d-%d", os.Getpid(), scratchSeq))
	defer os.RemoveAll(base)
	rootDir := filepath.Join(base, "root")
	if err := materialise(rootDir, t); err != nil {
		return "harness: " + err.Error()
	}
	res := fsx.RunSeq(func() {
		dfs, err := diskfs.NewFilespace(rootDir)
		if err != nil {
			bad = "harness: " + err.Error()
			return
		}
		defer func() {
			if p := recover(); p != nil {
				bad = fmt.Sprintf("panic while re-inspecting the retained result: %v", p)
			}
		}()
		switch rd.Kind {
		case "ReadFile":
			d, err := dfs.ReadFile(rd.P)
			if err != nil {
				return
			}
			before := string(d)
			fsx.Exec(dfs, follow)
			if string(d) != before {
				bad = fmt.Sprintf("disk ReadFile(%q) returned %q; after %s the same slice reads %q (the in-memory backend hands out a private copy)", rd.P, before, fsx.OpString(follow), string(d))
			}
		case "ReadDir":
			l, err := dfs.ReadDir(rd.P)
			if err != nil {
				return
			}
			snap := probeListing(l)
			fsx.Exec(dfs, follow)
			if now := probeListing(l); now != snap {
				bad = fmt.Sprintf("disk ReadDir(%q) returned [%s]; after %s the same slice lists [%s]", rd.P, snap, fsx.OpString(follow), now)
			}
		}
	})
	if bad == "" && (res.Deadlock || res.Horizon) {
		bad = fmt.Sprintf("blocked forever: %v", res.Blocked)
	}
	if bad == "" && len(res.Panics) > 0 {
		bad = "panic: " + res.Panics[0].Value
	}
	return bad
}

func probeListing(l []os.FileInfo) string {
	var s []string
	for _, n := range l {
		if n == nil {
			s = append(s, "<nil>")
			continue
		}
		if n.IsDir() {
			s = append(s, n.Name()+"/")
		} else {
			s = append(s, n.Name())
		}
	}
	sort.Strings(s)
	return fmt.Sprint(s)
}

// probeOps: the held reads of a state and the operations that follow them.
func probeOps(t *treefs.Node, contents []string) (reads, follows []treefs.Op) {
	flat := t.Flat()
	var paths []string
	for p := range flat {
		paths = append(paths, p)
	}
	sort.Strings(paths)
	reads = append(reads, treefs.Op{Kind: "ReadDir", P: "."})
	for _, p := range paths {
		if flat[p] == "dir" {
			reads = append(reads, treefs.Op{Kind: "ReadDir", P: p})
			follows = append(follows, treefs.Op{Kind: "ReadDir", P: p})
		} else {
			reads = append(reads, treefs.Op{Kind: "ReadFile", P: p})
			follows = append(follows, treefs.Op{Kind: "ReadFile", P: p}, treefs.Op{Kind: "Reader", P: p, Buf: 64}, treefs.Op{Kind: "ReadFile", P: p, View: nil})
		}
	}
	follows = append(follows, fsx.Mutators(contents)...)
	return
}
