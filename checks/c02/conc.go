package c02

import (
	"fmt"
	"os"
	"path/filepath"
	"sort"
	"strings"

	"github.com/goatcms/goatcore/filesystem/filespace/diskfs"
	"github.com/goatcms/goatcore/zzverif/vsched"

	"verif/explore"
	"verif/fsx"
	"verif/fw"
	"verif/models/treefs"
)

// Concurrent creations on ONE disk filespace. The in-memory backend creates missing parents under its
// lock, so callers that write into a fresh directory from several goroutines succeed there; switching
// to the disk backend must not change that. Every host file system call of the disk packages is a
// scheduling point (instrumenter: os.X(p, ..) -> os.X(vsched.SysArg(p), ..)), the calls themselves are
// the atomic steps. Only operations whose preconditions hold in EVERY order are used (creations into
// fresh directories, copies from sources nobody writes): all of them must succeed and the final tree
// must be the one a sequential order produces.

// ConcSpec is one concurrent program: one operation per thread.
type ConcSpec struct {
	Ops   []treefs.Op `json:"ops"`
	Bound int         `json:"bound"`
}

type concObs struct {
	res   []fsx.Result
	after map[string]string
	probs []string
	infra string
	done  bool
}

func concInitTree() *treefs.Node {
	t := treefs.NewDir()
	for _, o := range []treefs.Op{{Kind: "WriteFile", P: "s", Data: "SRC"}, {Kind: "WriteFile", P: "sd/k", Data: "K"}, {Kind: "MkdirAll", P: "n0"}, {Kind: "WriteFile", P: "n0/r", Data: "R"}, {Kind: "WriteFile", P: "n0/r2", Data: "R2"}} {
		if e := treefs.Apply(t, o); e.After != nil {
			t = e.After
		}
	}
	return t
}

func concOps() []treefs.Op {
	return []treefs.Op{
		{Kind: "WriteFile", P: "n/a/x", Data: "1"},
		{Kind: "WriteFile", P: "n/a/y", Data: "22"},
		{Kind: "MkdirAll", P: "n/a"},
		{Kind: "MkdirAll", P: "n/a/b"},
		{Kind: "Writer", P: "n0/z", Chunks: []string{"W", "w"}},
		{Kind: "CopyFile", P: "s", Q: "n0/c"},
		{Kind: "CopyDirectory", P: "sd", Q: "n0/d"},
		{Kind: "Copy", P: "s", Q: "n0/q"},
		{Kind: "WriteFile", P: "a/v", Data: "V", View: []string{"n0"}},
		{Kind: "MkdirAll", P: "a/w", View: []string{"n0"}},
		{Kind: "WriteFile", P: "n0/a/u", Data: "U"},
		// a listing / a read while a sibling entry is removed or created (the listed directory and the read
		// file exist throughout, so both succeed in every order)
		{Kind: "ReadDir", P: "n0"},
		{Kind: "Remove", P: "n0/r"},
		{Kind: "ReadFile", P: "n0/r2"},
		{Kind: "Lstat", P: "n0/r2"},
	}
}

func concPrograms(thorough bool) []ConcSpec {
	ops := concOps()
	var ps []ConcSpec
	b := 2
	if thorough {
		b = 3
	}
	for i := range ops {
		for j := i + 1; j < len(ops); j++ {
			ps = append(ps, ConcSpec{Ops: []treefs.Op{ops[i], ops[j]}, Bound: b})
		}
	}
	// three writers into one fresh directory
	ps = append(ps, ConcSpec{Ops: []treefs.Op{ops[0], ops[1], ops[3]}, Bound: b},
		ConcSpec{Ops: []treefs.Op{ops[0], ops[2], ops[5]}, Bound: b},
		ConcSpec{Ops: []treefs.Op{ops[8], ops[9], ops[10]}, Bound: b})
	return ps
}

func (sp ConcSpec) name() string {
	var l []string
	for _, o := range sp.Ops {
		l = append(l, fsx.OpString(o))
	}
	return "conc/" + strings.Join(l, " || ")
}

var concSeq int

func concBuild(sp ConcSpec, o *concObs) func() {
	return func() {
		*o = concObs{res: make([]fsx.Result, len(sp.Ops))}
		concSeq++
		base := filepath.Join(scratchBase(), fmt.Sprintf("c02c-%d-%d", os.Getpid(), concSeq))
		defer os.RemoveAll(base)
		rootDir := filepath.Join(base, "root")
		if err := materialise(rootDir, concInitTree()); err != nil {
			o.infra = "cannot materialise: " + err.Error()
			return
		}
		dfs, err := diskfs.NewFilespace(rootDir)
		if err != nil {
			o.infra = err.Error()
			return
		}
		var wg vsched.WaitGroup
		for i, op := range sp.Ops {
			i, op := i, op
			wg.Add(1)
			vsched.Spawn(func() {
				defer wg.Done()
				o.res[i] = fsx.Exec(dfs, op)
			})
		}
		wg.Wait()
		o.after, o.probs = fsx.Walk(dfs)
		o.done = true
	}
}

// sequentialOutcomes: the final trees of all orders of the operations on the model (every operation
// must succeed in every order - asserted).
func sequentialOutcomes(ops []treefs.Op) (keys map[string]bool, ok bool) {
	keys = map[string]bool{}
	ok = true
	idx := make([]int, len(ops))
	for i := range idx {
		idx[i] = i
	}
	var rec func(k int)
	rec = func(k int) {
		if k == len(idx) {
			t := concInitTree()
			for _, i := range idx {
				e := relax(t, ops[i], treefs.Apply(t, ops[i]))
				if e.Class != treefs.MustOK {
					ok = false
					return
				}
				if e.After != nil { // (nil for pure reads)
					t = e.After
				}
			}
			keys[fsx.FlatKey(t.Flat())] = true
			return
		}
		for i := k; i < len(idx); i++ {
			idx[k], idx[i] = idx[i], idx[k]
			rec(k + 1)
			idx[k], idx[i] = idx[i], idx[k]
		}
	}
	rec(0)
	return keys, ok
}

func concJudge(sp ConcSpec, o *concObs) func(x *explore.Exec) *explore.Verdict {
	want, ok := sequentialOutcomes(sp.Ops)
	return func(x *explore.Exec) *explore.Verdict {
		if !ok {
			return &explore.Verdict{Kind: "harness", Clause: "", Detail: "program contains an operation whose preconditions do not hold in every order"}
		}
		if o.infra != "" {
			return &explore.Verdict{Kind: "harness", Clause: "", Detail: o.infra}
		}
		if !o.done {
			return &explore.Verdict{Kind: "conc/not-finished", Clause: "operations return", Detail: "the harness did not finish"}
		}
		for i, r := range o.res {
			if r.Panic != "" {
				return &explore.Verdict{Kind: "conc/panic", Clause: "no panic", Detail: fmt.Sprintf("%s panicked: %s", fsx.OpString(sp.Ops[i]), r.Panic)}
			}
			if r.Err != "" {
				return &explore.Verdict{Kind: "conc/operation-failed/" + sp.Ops[i].Kind, Clause: "on every history of operations whose preconditions are met the disk filespace returns the same results as the in-memory filespace",
					Detail: fmt.Sprintf("%s failed on the disk filespace although its preconditions hold in every order of the concurrent operations (the in-memory filespace succeeds): %s", fsx.OpString(sp.Ops[i]), r.Err)}
			}
		}
		if len(o.probs) > 0 {
			return &explore.Verdict{Kind: "conc/tree-inconsistent", Clause: "ends with the same tree", Detail: strings.Join(o.probs, "; ")}
		}
		if !want[fsx.FlatKey(o.after)] {
			var l []string
			for k := range want {
				l = append(l, k)
			}
			sort.Strings(l)
			return &explore.Verdict{Kind: "conc/final-tree-differs", Clause: "ends with the same tree as the in-memory filespace",
				Detail: fmt.Sprintf("all operations reported success, but the disk tree is\n  %s\nwhile every sequential order gives\n  %s", fsx.FlatKey(o.after), strings.Join(l, "\n  "))}
		}
		return nil
	}
}

func mkConc(sp ConcSpec) *explore.Program {
	o := &concObs{}
	return &explore.Program{Prop: "C02", Name: sp.name(), Spec: sp,
		Opt:     explore.Options{Bound: sp.Bound, Focus: []string{"filesystem/disk", "filesystem/filespace/diskfs", "checks/c02"}, MaxSteps: 20000, HBR: true, NoShard: true},
		Body:    concBuild(sp, o),
		Judge:   concJudge(sp, o),
		Outcome: func() string { return fsx.FlatKey(o.after) },
	}
}

func runConc(c *fw.Ctx) {
	ps := concPrograms(c.Thorough())
	c.R.Info["concurrent_programs"] = len(ps)
	for i, sp := range ps {
		if !c.Mine(2000003 + i) {
			continue
		}
		if c.Expired() {
			c.NotExhaustive("deadline in the concurrent part")
			return
		}
		if !explore.RunProgram(c, mkConc(sp)) && c.R.InfraError != "" {
			return
		}
	}
}
