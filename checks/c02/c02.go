// Package c02 decides C02: the disk filespace obeys the same contract as the in-memory one.
// Engine: explicit-state enumeration of canonical trees; from every state every operation is
// applied in lock-step to a real disk filespace (state materialised in a scratch directory)
// and to a real memfs; results and resulting trees are compared with each other and with the
// tree model where the preconditions are met, and for clean failure otherwise.
package c02

import (
	"encoding/json"
	"fmt"
	"os"
	"path/filepath"
	"sort"
	"strings"

	"github.com/goatcms/goatcore/filesystem"
	"github.com/goatcms/goatcore/filesystem/filespace/diskfs"
	"github.com/goatcms/goatcore/filesystem/filespace/memfs"

	"verif/explore"
	"verif/fsx"
	"verif/fw"
	"verif/models/treefs"
)

type witness struct {
	State map[string]string `json:"state"`
	Op    treefs.Op         `json:"op"`
}

var scratchSeq int

func scratchBase() string {
	b := os.Getenv("VCHECK_SCRATCH")
	if b == "" {
		b = os.TempDir()
	}
	return b
}

// materialise builds the model tree below dir with plain os calls.
func materialise(dir string, t *treefs.Node) error {
	if err := os.MkdirAll(dir, 0777); err != nil {
		return err
	}
	names := make([]string, 0, len(t.Kids))
	for n := range t.Kids {
		names = append(names, n)
	}
	sort.Strings(names)
	for _, n := range names {
		k := t.Kids[n]
		p := filepath.Join(dir, n)
		if k.Dir {
			if err := materialise(p, k); err != nil {
				return err
			}
		} else if err := os.WriteFile(p, []byte(k.Data), 0644); err != nil {
			return err
		}
	}
	return nil
}

func memFrom(t *treefs.Node) filesystem.Filespace {
	fs, _ := memfs.NewFilespace()
	var build func(prefix string, n *treefs.Node)
	build = func(prefix string, n *treefs.Node) {
		names := make([]string, 0, len(n.Kids))
		for k := range n.Kids {
			names = append(names, k)
		}
		sort.Strings(names)
		for _, name := range names {
			k := n.Kids[name]
			if k.Dir {
				fs.MkdirAll(prefix+name, 0777)
				build(prefix+name+"/", k)
			} else {
				fs.WriteFile(prefix+name, []byte(k.Data), 0644)
			}
		}
	}
	build("", t)
	return fs
}

// hostSnapshot lists everything below dir except the subtree `skip`.
func hostSnapshot(dir, skip string) string {
	var l []string
	filepath.Walk(dir, func(p string, info os.FileInfo, err error) error {
		if err != nil {
			return nil
		}
		if p == skip {
			if info.IsDir() {
				return filepath.SkipDir
			}
			return nil
		}
		rel, _ := filepath.Rel(dir, p)
		if info.IsDir() {
			l = append(l, rel+"/")
		} else {
			b, _ := os.ReadFile(p)
			l = append(l, rel+"="+string(b))
		}
		return nil
	})
	sort.Strings(l)
	return strings.Join(l, "\n")
}

// relax adapts the model's class to C02's stated preconditions.
func relax(t *treefs.Node, op treefs.Op, e treefs.Expect) treefs.Expect {
	root, _ := treefs.ViewRoot(op.View)
	if len(root) > 0 {
		if vr := t.Lookup(root); vr == nil || !vr.Dir {
			// a child view of something that is not an existing directory: memfs is lazy, disk refuses
			e.Class = treefs.Unspecified
			e.Touched = append(e.Touched, root)
			e.Why = "view root is not an existing directory: precondition not met"
			return e
		}
	}
	if e.Class != treefs.MustOK {
		return e
	}
	parentMissing := func(p string) bool {
		segs, _ := treefs.Norm(p)
		abs := append(append([]string{}, root...), segs...)
		if len(abs) == 0 {
			return false
		}
		par := t.Lookup(abs[:len(abs)-1])
		return par == nil
	}
	switch op.Kind {
	case "Writer":
		// "destination parent exists" is a stated precondition; only WriteFile promises parents
		if parentMissing(op.P) {
			e.Class = treefs.Either
			e.Why = "writer below a missing parent: precondition not met (error or parents created)"
		}
	}
	return e
}

type outcome struct {
	disk, mem         fsx.Result
	diskAfter, memAft map[string]string
	diskProbs, memPr  []string
	hostBefore, hostA string
	viewErrDisk       bool
	deadlock          bool
	panicTxt          string
}

func step(t *treefs.Node, op treefs.Op) outcome {
	var o outcome
	scratchSeq++
	base := filepath.Join(scratchBase(), fmt.Sprintf("c02-%d", scratchSeq))
	defer os.RemoveAll(base)
	rootDir := filepath.Join(base, "root")
	os.MkdirAll(filepath.Join(base, "canarydir"), 0777)
	os.WriteFile(filepath.Join(base, "canary.txt"), []byte("CANARY-outside-root"), 0644)
	os.WriteFile(filepath.Join(base, "canarydir", "x"), []byte("CANARY-x"), 0644)
	if err := materialise(rootDir, t); err != nil {
		o.panicTxt = "harness: cannot materialise: " + err.Error()
		return o
	}
	res := fsx.RunSeq(func() {
		o.hostBefore = hostSnapshot(base, rootDir)
		dfs, err := diskfs.NewFilespace(rootDir)
		if err != nil {
			o.panicTxt = "harness: " + err.Error()
			return
		}
		o.disk = fsx.Exec(dfs, op)
		if fi, err := os.Stat(rootDir); err == nil && fi.IsDir() {
			o.diskAfter, o.diskProbs = fsx.Walk(dfs)
		} else {
			o.diskAfter = map[string]string{"<root removed>": "1"}
		}
		o.hostA = hostSnapshot(base, rootDir)
		mfs := memFrom(t)
		o.mem = fsx.Exec(mfs, op)
		o.memAft, o.memPr = fsx.Walk(mfs)
	})
	if res.Deadlock || res.Horizon {
		o.deadlock = true
	}
	if len(res.Panics) > 0 {
		o.panicTxt = res.Panics[0].Value + "\n" + res.Panics[0].Stack
	}
	return o
}

// judge returns (kind, clause, detail) of a mismatch or "".
func judge(t *treefs.Node, op treefs.Op, o outcome) (string, string, string) {
	if strings.HasPrefix(o.panicTxt, "harness:") {
		return "", "", ""
	}
	if o.panicTxt != "" {
		return "panic", "no panic", o.panicTxt
	}
	if o.deadlock {
		return "blocks-forever", "operations return", "an operation or the following walk never returned"
	}
	if o.disk.Panic != "" {
		return "disk-panic", "both backends fail cleanly: no panic", "disk filespace panicked: " + o.disk.Panic
	}
	if o.mem.Panic != "" {
		return "mem-panic", "both backends fail cleanly: no panic", "memory filespace panicked: " + o.mem.Panic
	}
	if o.hostBefore != o.hostA {
		return "host-outside-root-changed", "no change outside the addressed paths (host directory outside the root)", fmt.Sprintf("host directory outside the filespace root changed:\nbefore:\n%s\nafter:\n%s", o.hostBefore, o.hostA)
	}
	e := relax(t, op, treefs.Apply(t, op))
	if e.Class != treefs.MustOK {
		// outside the stated preconditions: "fail cleanly" = no panic (checked above) and no
		// change outside the addressed paths, on either backend
		touched := append(append([][]string{}, e.Touched...), addressed(op)...)
		if ok, why := treefs.FrameOK(t.Flat(), o.diskAfter, touched); !ok {
			return "disk-frame", "no change outside the addressed paths", "disk filespace changed a node outside the addressed paths: " + why
		}
		if e.Class == treefs.MustFail && o.disk.Err != "" {
			// an operation that must fail, and did: not even ancestors of the addressed paths appear
			if ok, why := treefs.FrameStrict(t.Flat(), o.diskAfter, touched); !ok {
				return "disk-frame-failed-op-created-ancestors", "no change outside the addressed paths", "the disk filespace reported the (required) error but changed a node that is not below an addressed path: " + why
			}
		}
		if ok, why := treefs.FrameOK(t.Flat(), o.memAft, touched); !ok {
			return "mem-frame", "no change outside the addressed paths", "memory filespace changed a node outside the addressed paths: " + why
		}
		if len(o.diskProbs) > 0 {
			return "disk-structure", "tree stays well formed", strings.Join(o.diskProbs, "; ")
		}
		if e.Class == treefs.MustFail && (op.Kind == "ReadFile" || op.Kind == "Reader") {
			// "source exists" is not met: a read has nothing it could return - both backends must FAIL
			// (cleanly), and a read never leaves anything behind, not even at the addressed path
			if o.disk.Err == "" {
				return "disk-read-of-missing-source-succeeded", "outside the preconditions both backends must still fail cleanly", fmt.Sprintf("disk filespace: %s (%s) reported success with data %q", fsx.OpString(op), e.Why, o.disk.Data)
			}
			if o.mem.Err == "" {
				return "mem-read-of-missing-source-succeeded", "outside the preconditions both backends must still fail cleanly", fmt.Sprintf("memory filespace: %s (%s) reported success with data %q", fsx.OpString(op), e.Why, o.mem.Data)
			}
			if fsx.FlatKey(o.diskAfter) != fsx.FlatKey(t.Flat()) {
				return "disk-failed-read-changed-tree", "outside the preconditions both backends must still fail cleanly", "disk filespace: a refused read changed the tree: " + fsx.DiffFlat(t.Flat(), o.diskAfter)
			}
			if fsx.FlatKey(o.memAft) != fsx.FlatKey(t.Flat()) {
				return "mem-failed-read-changed-tree", "outside the preconditions both backends must still fail cleanly", "memory filespace: a refused read changed the tree: " + fsx.DiffFlat(t.Flat(), o.memAft)
			}
		}
		return "", "", ""
	}
	// preconditions met: disk against the model, memory against the model, then directly against each other
	if m := fsx.Compare(t, op, e, o.disk, o.diskAfter, o.diskProbs); m != nil {
		return "disk-" + m.Kind, m.Clause, "disk filespace vs tree model: " + m.Detail
	}
	if m := fsx.Compare(t, op, e, o.mem, o.memAft, o.memPr); m != nil {
		return "mem-" + m.Kind, m.Clause, "memory filespace vs tree model: " + m.Detail
	}
	if o.disk.OK() != o.mem.OK() {
		return "differential-outcome", "same results on both backends", fmt.Sprintf("disk err=%q, memory err=%q", o.disk.Err, o.mem.Err)
	}
	if o.disk.Data != o.mem.Data || strings.Join(o.disk.List, ",") != strings.Join(o.mem.List, ",") || o.disk.Bool != o.mem.Bool || o.disk.IsDir != o.mem.IsDir {
		return "differential-result", "same results on both backends", fmt.Sprintf("disk %+v vs memory %+v", o.disk, o.mem)
	}
	if fsx.FlatKey(o.diskAfter) != fsx.FlatKey(o.memAft) {
		return "differential-tree", "same tree on both backends", fsx.DiffFlat(o.memAft, o.diskAfter)
	}
	return "", "", ""
}

func addressed(op treefs.Op) [][]string {
	root, _ := treefs.ViewRoot(op.View)
	var out [][]string
	paths := []string{op.P}
	if op.Kind == "Copy" || op.Kind == "CopyFile" || op.Kind == "CopyDirectory" {
		paths = append(paths, op.Q) // only copies have a second argument ("" would address the root)
	}
	for _, p := range paths {
		s, _ := treefs.Norm(p)
		out = append(out, append(append([]string{}, root...), s...))
	}
	return out
}

// ---- live histories: several operations on the SAME filespace objects (root and a child
// view obtained once), so that state kept inside a filespace object is exercised too ----

type liveOp struct {
	Via string    `json:"via"` // "root" | "child" (the view Filespace("a") obtained before the history)
	Op  treefs.Op `json:"op"`
}

type liveWit struct {
	Init map[string]string `json:"init"`
	Hist []liveOp          `json:"history"`
}

func liveAlphabet() []liveOp {
	var a []liveOp
	for _, p := range []string{"a/b", "a/b/c", "a/d"} {
		a = append(a, liveOp{"root", treefs.Op{Kind: "WriteFile", P: p + "/f", Data: "x"}}, liveOp{"root", treefs.Op{Kind: "MkdirAll", P: p}},
			liveOp{"root", treefs.Op{Kind: "RemoveAll", P: p}}, liveOp{"root", treefs.Op{Kind: "Remove", P: p + "/f"}})
	}
	for _, p := range []string{"b", "b/c", "d"} {
		a = append(a, liveOp{"child", treefs.Op{Kind: "WriteFile", P: p + "/f", Data: "y"}}, liveOp{"child", treefs.Op{Kind: "MkdirAll", P: p}},
			liveOp{"child", treefs.Op{Kind: "RemoveAll", P: p}}, liveOp{"child", treefs.Op{Kind: "Remove", P: p + "/f"}})
	}
	a = append(a, liveOp{"root", treefs.Op{Kind: "Writer", P: "a/b/w", Chunks: []string{"w"}}}, liveOp{"child", treefs.Op{Kind: "Writer", P: "b/w", Chunks: []string{"v"}}},
		liveOp{"root", treefs.Op{Kind: "CopyDirectory", P: "a/b", Q: "a/e"}}, liveOp{"child", treefs.Op{Kind: "CopyFile", P: "b/f", Q: "d/g"}})
	return a
}

// runLive executes a history on a disk and a memory filespace, keeping the same root and child
// view objects throughout, and judges every step.
func runLive(init *treefs.Node, hist []liveOp) (kind, clause, detail string) {
	scratchSeq++
	base := filepath.Join(scratchBase(), fmt.Sprintf("c02l-%d", scratchSeq))
	defer os.RemoveAll(base)
	rootDir := filepath.Join(base, "root")
	if err := materialise(rootDir, init); err != nil {
		return "", "", ""
	}
	res := fsx.RunSeq(func() {
		dfs, err := diskfs.NewFilespace(rootDir)
		if err != nil {
			return
		}
		mfs := memFrom(init)
		dchild, derr := dfs.Filespace("a")
		mchild, merr := mfs.Filespace("a")
		if derr != nil || merr != nil {
			return
		}
		t := init.Clone()
		for i, lo := range hist {
			dv, mv := dfs, mfs
			mop := lo.Op // the model sees the operation through the view chain
			if lo.Via == "child" {
				dv, mv = dchild, mchild
				mop.View = []string{"a"}
			}
			o := outcome{}
			o.disk = fsx.Exec(dv, lo.Op)
			o.diskAfter, o.diskProbs = fsx.Walk(dfs)
			o.mem = fsx.Exec(mv, lo.Op)
			o.memAft, o.memPr = fsx.Walk(mfs)
			k, c, d := judge(t, mop, o)
			if k != "" {
				kind, clause, detail = "live-"+k, c, fmt.Sprintf("step %d of the history (same root and child-view objects throughout): %s", i+1, d)
				return
			}
			e := relax(t, mop, treefs.Apply(t, mop))
			if e.Class == treefs.MustOK && e.After != nil {
				t = e.After
			} else if fsx.FlatKey(o.diskAfter) != fsx.FlatKey(t.Flat()) || fsx.FlatKey(o.memAft) != fsx.FlatKey(t.Flat()) {
				return // outside the preconditions the backends may legitimately diverge: stop this history
			}
		}
	})
	if kind == "" && len(res.Panics) > 0 {
		return "live-panic", "no panic", res.Panics[0].Value
	}
	return
}

func params(thorough bool) (contents []string, nspell int, views [][]string, bufs []int) {
	if thorough {
		return []string{"", "x", "yy"}, len(fsx.Spellings), [][]string{nil, {"a"}, {"a", "b"}}, []int{1, 2, 64}
	}
	return []string{"x", "yy"}, 4, [][]string{nil, {"a"}}, []int{1, 64}
}

func skipOp(t *treefs.Node, op treefs.Op) bool {
	// excluded by the property: RemoveAll of the real root (would delete the host directory itself)
	if len(op.View) == 0 && (op.Kind == "RemoveAll" || op.Kind == "Remove") {
		if s, _ := treefs.Norm(op.P); len(s) == 0 {
			return true
		}
	}
	// copying a directory into itself is outside the preconditions and unbounded on disk
	// (the walk keeps finding what it just created); excluded, see DESIGN.md
	if op.Kind == "Copy" || op.Kind == "CopyDirectory" {
		root, _ := treefs.ViewRoot(op.View)
		ps, _ := treefs.Norm(op.P)
		qs, _ := treefs.Norm(op.Q)
		src := append(append([]string{}, root...), ps...)
		dst := append(append([]string{}, root...), qs...)
		if n := t.Lookup(src); n != nil && n.Dir && len(src) <= len(dst) {
			inside := true
			for i := range src {
				if src[i] != dst[i] {
					inside = false
				}
			}
			if inside {
				return true
			}
		}
	}
	return false
}

func run(c *fw.Ctx) {
	fsx.CheckSizes = true
	// part 0: concurrent creations on one disk filespace (schedule exploration over host fs calls)
	runConc(c)
	if c.R.InfraError != "" {
		return
	}
	contents, nspell, views, bufs := params(c.Thorough())
	states := fsx.Reach(fsx.Mutators(contents), 2, 1)
	alphabet := fsx.Alphabet(contents, nspell, views, false, bufs)
	c.R.Info["model_states"] = len(states)
	c.R.Info["alphabet"] = len(alphabet)
	c.R.Info["backends"] = []string{"disk root", "disk child view", "memfs root", "memfs child view"}
	for si, s := range states {
		if !c.Mine(si) {
			continue
		}
		if c.Expired() {
			c.NotExhaustive(fmt.Sprintf("deadline reached at model state %d of %d", si, len(states)))
			break
		}
		c.R.States++
		for _, g := range alphabet {
			if skipOp(s.Tree, g.Op) {
				continue
			}
			o := step(s.Tree, g.Op)
			c.R.Transitions++
			c.R.Evaluations++
			if strings.HasPrefix(o.panicTxt, "harness:") {
				c.Infra("%s", o.panicTxt)
				return
			}
			kind, clause, detail := judge(s.Tree, g.Op, o)
			if e := treefs.Apply(s.Tree, g.Op); e.Class == treefs.MustOK {
				c.Count("lockstep_compared", 1)
			} else {
				c.Count("clean_failure_checked", 1)
			}
			if kind == "" {
				continue
			}
			sg := fmt.Sprintf("C02/%s/%s/%s", kind, g.Op.Kind, g.Tag)
			if c.Violated(sg) {
				c.Violate(&fw.Violation{Signature: sg})
				continue
			}
			o2 := step(s.Tree, g.Op)
			if k2, _, _ := judge(s.Tree, g.Op, o2); k2 != kind {
				c.Count("unstable_candidates", 1)
				continue
			}
			c.Violate(&fw.Violation{Property: "C02", Clause: clause, Signature: sg,
				Detail:  fmt.Sprintf("state {%s}\nop %s [%s]\n%s", strings.ReplaceAll(s.Key, "\n", ", "), fsx.OpString(g.Op), g.Tag, detail),
				Witness: fw.JSON(witness{State: s.Tree.Flat(), Op: g.Op})})
		}
		// retained results (held across every later operation, other reads included)
		reads, follows := probeOps(s.Tree, contents)
		for _, rd := range reads {
			for _, fo := range follows {
				c.R.Evaluations++
				c.Count("retained_result_probes", 1)
				bad := runDiskProbe(s.Tree, rd, fo)
				if bad == "" {
					continue
				}
				if strings.HasPrefix(bad, "harness:") {
					c.Infra("%s", bad)
					return
				}
				sg := fmt.Sprintf("C02/disk-retained-%s-changed-by/%s", rd.Kind, fo.Kind)
				if c.Violated(sg) {
					c.Violate(&fw.Violation{Signature: sg})
					continue
				}
				c.Violate(&fw.Violation{Property: "C02", Clause: "a disk filespace returns the same results as the in-memory filespace, so code written against the Filespace interface may switch backend", Signature: sg,
					Detail:  fmt.Sprintf("state {%s}\n%s", strings.ReplaceAll(s.Key, "\n", ", "), bad),
					Witness: fw.JSON(map[string]interface{}{"probe": ProbeWit{State: s.Tree.Flat(), Read: rd, Follow: fo}})})
			}
		}
		if si%29 == 7 {
			c.Sample(map[string]interface{}{"state": strings.Split(s.Key, "\n"), "ops_applied_to_both_backends": len(alphabet)})
		}
	}
	// live histories on retained filespace objects
	alpha := liveAlphabet()
	depth := 3
	inits := []map[string]string{{"a": "dir"}, {"a": "dir", "a/b": "dir", "a/b/f": "file:0"}}
	c.R.Info["live_history_alphabet"] = len(alpha)
	c.R.Info["live_history_depth"] = depth
	item := 0
	for _, im := range inits {
		init := treeFromFlat(im)
		var rec func(cur []liveOp)
		rec = func(cur []liveOp) {
			if len(cur) == depth {
				item++
				if !c.Mine(item) || c.Expired() {
					return
				}
				c.R.Evaluations++
				c.R.Transitions += int64(depth)
				c.Count("live_histories", 1)
				kind, clause, detail := runLive(init, cur)
				if kind != "" {
					last := cur[len(cur)-1]
					sg := fmt.Sprintf("C02/%s/%s-via-%s", kind, last.Op.Kind, last.Via)
					if c.Violated(sg) {
						c.Violate(&fw.Violation{Signature: sg})
						return
					}
					var hs []string
					for _, lo := range cur {
						hs = append(hs, lo.Via+"."+fsx.OpString(lo.Op))
					}
					c.Violate(&fw.Violation{Property: "C02", Clause: clause, Signature: sg,
						Detail:  fmt.Sprintf("initial tree %v\nhistory %s\n%s", im, strings.Join(hs, "; "), detail),
						Witness: fw.JSON(map[string]interface{}{"live": liveWit{im, cur}})})
				}
				return
			}
			for _, lo := range alpha {
				rec(append(append([]liveOp{}, cur...), lo))
			}
		}
		rec(nil)
	}
	if c.Expired() {
		c.NotExhaustive("deadline in live histories")
	}
	c.R.Traces = c.R.Transitions
	c.R.Distinct = c.R.Transitions
}

func treeFromFlat(flat map[string]string) *treefs.Node {
	t := treefs.NewDir()
	var paths []string
	for p := range flat {
		paths = append(paths, p)
	}
	sort.Strings(paths)
	for _, p := range paths {
		segs := strings.Split(p, "/")
		cur := t
		for i, s := range segs {
			if i == len(segs)-1 {
				if flat[p] == "dir" {
					if cur.Kids[s] == nil {
						cur.Kids[s] = treefs.NewDir()
					}
				} else {
					cur.Kids[s] = &treefs.Node{Data: strings.TrimPrefix(flat[p], "file:")}
				}
			} else {
				if cur.Kids[s] == nil {
					cur.Kids[s] = treefs.NewDir()
				}
				cur = cur.Kids[s]
			}
		}
	}
	return t
}

func replay(w json.RawMessage) (*fw.Violation, error) {
	fsx.CheckSizes = true
	var cw struct {
		Program string   `json:"program"`
		Spec    ConcSpec `json:"spec"`
		Choices []int    `json:"choices"`
	}
	if err := json.Unmarshal(w, &cw); err == nil && strings.HasPrefix(cw.Program, "conc/") {
		return explore.ReplayProgram(mkConc(cw.Spec), cw.Choices)
	}
	var pw struct {
		Probe *ProbeWit `json:"probe"`
	}
	if err := json.Unmarshal(w, &pw); err == nil && pw.Probe != nil {
		if bad := runDiskProbe(treeFromFlat(pw.Probe.State), pw.Probe.Read, pw.Probe.Follow); bad != "" {
			return &fw.Violation{Property: "C02", Clause: "same results as the in-memory filespace", Signature: fmt.Sprintf("C02/disk-retained-%s-changed-by/%s/replay", pw.Probe.Read.Kind, pw.Probe.Follow.Kind), Detail: bad}, nil
		}
		return nil, nil
	}
	var lw struct {
		Live *liveWit `json:"live"`
	}
	if err := json.Unmarshal(w, &lw); err == nil && lw.Live != nil {
		kind, clause, detail := runLive(treeFromFlat(lw.Live.Init), lw.Live.Hist)
		if kind == "" {
			return nil, nil
		}
		return &fw.Violation{Property: "C02", Clause: clause, Signature: "C02/" + kind + "/replay", Detail: detail}, nil
	}
	var wit witness
	if err := json.Unmarshal(w, &wit); err != nil {
		return nil, err
	}
	t := treeFromFlat(wit.State)
	o := step(t, wit.Op)
	kind, clause, detail := judge(t, wit.Op, o)
	if kind == "" {
		return nil, nil
	}
	return &fw.Violation{Property: "C02", Clause: clause, Signature: "C02/" + kind + "/" + wit.Op.Kind + "/replay", Detail: detail}, nil
}

func init() {
	fw.Register(&fw.Check{ID: "C02", Level: "model_checking",
		Rule: "states = every tree of depth<=2 over names {a,b} and the content pool, materialised in a scratch directory (disk) and built through MkdirAll/WriteFile (memory); from every state every op of the alphabet (16 methods x path spellings x contents/chunkings/buffers x root and child views) is applied to BOTH real backends; where the stated preconditions hold results and trees must be equal to each other and to the tree model, otherwise each backend must fail cleanly (no panic, failed op leaves the tree unchanged, nothing outside the addressed paths or outside the host root changes); plus every history of 3 operations from a 28-entry alphabet (writes, writers, mkdirs, removes, copies through the root and through a child view) executed on the SAME disk and memory filespace objects (root and child view obtained once), judged step by step; distinct = (state, op) transitions and live histories; plus retained-result probes on disk: from every state each ReadFile / ReadDir result is held across every later operation (all mutators and all reads of every node) and re-inspected - the in-memory backend hands out private snapshots",
		Run:  run, Replay: replay,
		Assumptions: []string{"single-operation transitions start from directly materialised disk states; state kept inside filespace objects is exercised by the live histories (depth 3)", "no symlinks/permissions; RemoveAll/Remove of the real root excluded", "a Writer below a missing parent is outside the stated preconditions (error or parents created)"}})
}
