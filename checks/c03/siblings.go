package c03

import (
	"fmt"
	"strings"

	"github.com/goatcms/goatcore/filesystem"
	"github.com/goatcms/goatcore/filesystem/filespace/encryptfs"
	"github.com/goatcms/goatcore/filesystem/filespace/memfs"
	"github.com/goatcms/goatcore/filesystem/fscache"
	"github.com/goatcms/goatcore/filesystem/fshelper"

	"verif/fsx"
	"verif/fw"
	"verif/models/treefs"
)

// Sibling views: views of views built from ONE parent object at depth 0..7. Two children x and y
// are obtained from that parent (in either order), then a grandchild x.Filespace("k"); whatever
// state the view objects share (base path slices, buffers), the grandchild must stay inside x/k.

type sibWit struct {
	Kind    string `json:"view_kind"`
	Depth   int    `json:"parent_depth"`
	Joined  bool   `json:"parent_obtained_with_one_joined_path"`
	Order   string `json:"creation_order"` // x-y-xk | y-x-xk | x-xk-y
	Op      string `json:"op"`
}

var sibKinds = []string{"memfs", "subfs", "readonly", "cache", "encrypted"}

func sibBase(kind string) (store filesystem.Filespace, top filesystem.Filespace, flush func(), err error) {
	mem, _ := memfs.NewFilespace()
	store, top, flush = mem, mem, func() {}
	switch kind {
	case "subfs":
		top = fshelper.NewSubFS(mem, "")
	case "readonly":
		top = fshelper.NewReadonlyFS(mem)
	case "cache":
		c, e := fscache.NewMemCache(mem)
		if e != nil {
			return nil, nil, nil, e
		}
		top, flush = c, func() { c.Commit() }
	case "encrypted":
		top, err = encryptfs.NewEncryptFS(mem, encSettings())
	}
	return
}

func runSibling(w sibWit) *verdict {
	var out *verdict
	res := fsx.RunSeq(func() {
		store, top, flush, err := sibBase(w.Kind)
		if err != nil {
			out = &verdict{"harness", "", err.Error()}
			return
		}
		var segs []string
		for i := 1; i <= w.Depth; i++ {
			segs = append(segs, fmt.Sprintf("d%d", i))
		}
		pre := strings.Join(segs, "/")
		join := func(p string) string {
			if pre == "" {
				return p
			}
			return pre + "/" + p
		}
		// the tree is written through the top object (so that an encrypted top can read it)
		writer := top
		if w.Kind == "readonly" {
			writer = store
		}
		files := map[string]string{"x/k/n": "IN-x-k-n", "x/k/own.txt": "IN-own", "y/k/n": "CANARY-y-k-n", "y/k/secret.txt": "CANARY-secret", "x/n": "CANARY-x-n", "n": "CANARY-top-n"}
		for p, c := range files {
			if err := writer.WriteFile(join(p), []byte(c), 0644); err != nil {
				out = &verdict{"harness", "", err.Error()}
				return
			}
		}
		flush()
		parent := top
		if w.Depth > 0 {
			if w.Joined {
				parent, err = top.Filespace(pre)
			} else {
				parent, err = chain(top, segs...)
			}
			if err != nil || parent == nil {
				out = &verdict{"harness", "", fmt.Sprint("cannot build the parent view: ", err)}
				return
			}
		}
		var vx, vy, vxk filesystem.Filespace
		get := func(from filesystem.Filespace, name string) filesystem.Filespace {
			v, e := from.Filespace(name)
			if e != nil || v == nil {
				out = &verdict{"harness", "", fmt.Sprint("Filespace(", name, "): ", e)}
			}
			return v
		}
		switch w.Order {
		case "x-y-xk":
			vx = get(parent, "x")
			vy = get(parent, "y")
			if out == nil {
				vxk = get(vx, "k")
			}
		case "y-x-xk":
			vy = get(parent, "y")
			vx = get(parent, "x")
			if out == nil {
				vxk = get(vx, "k")
			}
		case "x-xk-y":
			vx = get(parent, "x")
			if out == nil {
				vxk = get(vx, "k")
			}
			vy = get(parent, "y")
		}
		if out != nil {
			return
		}
		_ = vy
		snap := func() string {
			flush()
			flat, _ := fsx.Walk(store)
			var l []string
			inside := join("x/k")
			for p, v := range flat {
				if p == inside || strings.HasPrefix(p, inside+"/") {
					continue
				}
				if w.Kind == "encrypted" && strings.HasPrefix(v, "file:") {
					v = "file:<ciphertext>" // re-encryption changes bytes; existence is what counts here
				}
				l = append(l, p+"="+v)
			}
			return strings.Join(sortedCopy(l), "\n")
		}
		before := snap()
		var r fsx.Result
		switch w.Op {
		case "ReadFile":
			r = fsx.Exec(vxk, treefs.Op{Kind: "ReadFile", P: "n"})
			if r.Panic == "" && (r.Err != "" || r.Data != "IN-x-k-n") {
				out = &verdict{"sibling-view-wrong-read", "no operation can read anything that is not under the view's root", fmt.Sprintf("grandchild view x/k: ReadFile(n) returned err=%q data=%q, its own file holds %q", r.Err, r.Data, "IN-x-k-n")}
			}
		case "ReadDir":
			r = fsx.Exec(vxk, treefs.Op{Kind: "ReadDir", P: "."})
			if r.Panic == "" && (r.Err != "" || strings.Join(r.List, ",") != "n,own.txt") {
				out = &verdict{"sibling-view-wrong-listing", "no operation can list anything that is not under the view's root", fmt.Sprintf("grandchild view x/k: ReadDir(.) returned err=%q %v, its own directory holds [n own.txt]", r.Err, r.List)}
			}
		case "WriteFile":
			if w.Kind == "readonly" {
				return
			}
			r = fsx.Exec(vxk, treefs.Op{Kind: "WriteFile", P: "new.txt", Data: "EVIL-w"})
		case "RemoveAll":
			if w.Kind == "readonly" {
				return
			}
			r = fsx.Exec(vxk, treefs.Op{Kind: "RemoveAll", P: "n"})
		case "via-y":
			// the younger sibling's own grandchild
			vyk := get(vy, "k")
			if out != nil {
				return
			}
			r = fsx.Exec(vyk, treefs.Op{Kind: "ReadFile", P: "n"})
			if r.Panic == "" && (r.Err != "" || r.Data != "CANARY-y-k-n") {
				out = &verdict{"sibling-view-wrong-read", "no operation can read anything that is not under the view's root", fmt.Sprintf("grandchild view y/k: ReadFile(n) returned err=%q data=%q, its own file holds %q", r.Err, r.Data, "CANARY-y-k-n")}
			}
		}
		if r.Panic != "" {
			out = &verdict{"panic", "no panic", r.Panic}
			return
		}
		if out != nil {
			return
		}
		if after := snap(); after != before {
			out = &verdict{"outside-changed", "nothing outside the view's own root is created, changed or deleted", diffSnap(before, after)}
		}
	})
	if out == nil && (res.Deadlock || res.Horizon) {
		out = &verdict{"blocks-forever", "operations return", fmt.Sprint(res.Blocked)}
	}
	if out == nil && len(res.Panics) > 0 {
		out = &verdict{"panic", "no panic", res.Panics[0].Value}
	}
	return out
}

func sortedCopy(l []string) []string {
	c := append([]string{}, l...)
	for i := 1; i < len(c); i++ {
		for j := i; j > 0 && c[j] < c[j-1]; j-- {
			c[j], c[j-1] = c[j-1], c[j]
		}
	}
	return c
}

func runSiblings(c *fw.Ctx, item *int) {
	maxDepth := 7
	if c.Thorough() {
		maxDepth = 12
	}
	c.R.Info["sibling_view_parent_depths"] = maxDepth
	for _, kind := range sibKinds {
		for d := 0; d <= maxDepth; d++ {
			for _, joined := range []bool{false, true} {
				if joined && d < 2 {
					continue
				}
				for _, order := range []string{"x-y-xk", "y-x-xk", "x-xk-y"} {
					for _, op := range []string{"ReadFile", "ReadDir", "WriteFile", "RemoveAll", "via-y"} {
						*item++
						if !c.Mine(*item) {
							continue
						}
						w := sibWit{kind, d, joined, order, op}
						c.R.Evaluations++
						c.Count("sibling_view_cases", 1)
						vd := runSibling(w)
						if vd == nil {
							continue
						}
						if vd.kind == "harness" {
							c.Count("sibling_cases_not_buildable", 1)
							continue
						}
						sg := fmt.Sprintf("C03/siblings/%s/%s/%s", vd.kind, kind, op)
						if c.Violated(sg) {
							c.Violate(&fw.Violation{Signature: sg})
							continue
						}
						c.Violate(&fw.Violation{Property: "C03", Clause: vd.clause, Signature: sg,
							Detail:  fmt.Sprintf("%s views: parent at depth %d (joined path: %v), children x and y from the same parent object, order %s, then x.Filespace(k); op %s\n%s", kind, d, joined, order, op, vd.detail),
							Witness: fw.JSON(map[string]interface{}{"siblings": w})})
					}
				}
			}
		}
	}
}
