// Package c03 decides C03: no filespace view reaches outside its own root.
// Engine: bounded exhaustive enumeration of path strings x operations x view kinds on the
// real code, with canaries outside every view root.
package c03

import (
	"encoding/json"
	"fmt"
	"os"
	"path/filepath"
	"sort"
	"strings"

	"github.com/goatcms/goatcore/filesystem"
	"github.com/goatcms/goatcore/filesystem/filespace/diskfs"
	"github.com/goatcms/goatcore/filesystem/filespace/encryptfs"
	"github.com/goatcms/goatcore/filesystem/filespace/encryptfs/cipherfs/aesgcm256cfs"
	"github.com/goatcms/goatcore/filesystem/filespace/memfs"
	"github.com/goatcms/goatcore/filesystem/fscache"
	"github.com/goatcms/goatcore/filesystem/fshelper"

	"verif/fsx"
	"verif/fw"
	"verif/models/treefs"
)

// The parent store every view is cut out of:
//
//	n              file  "CANARY-top-n"     (same name as nodes inside the views)
//	outdir/o.txt   file  "CANARY-o"
//	v/             root of depth-1 views
//	v/n/           dir
//	v/n/n          file  "in-vnn"
//	v/x            file  "in-vx"  (outside for depth-2 views rooted at v/n)
//	.v/n/n, .v/x   a second view root whose name differs from "v" by a leading dot only
var storeFiles = map[string]string{"n": "CANARY-top-n", "outdir/o.txt": "CANARY-o", "v/n/n": "in-vnn", "v/x": "in-vx", ".v/n/n": "in-dotv-nn", ".v/x": "in-dotv-x"}

// storeDirs: an EMPTY directory inside a directory that holds nothing else - the root of the "empty view"
// kinds (whatever tidies up after a failed operation inside such a view finds only empty directories
// on its way up).
var storeDirs = []string{"w/e"}

type viewKind struct {
	Name string
	Root string // path of the view root inside the store: "v" or "v/n"
	Disk bool
	// build returns the view, and a function that snapshots everything outside the view root
	build func(e *env) (filesystem.Filespace, error)
	// extraOutside lets cache-backed views flush and expose what they would write
	flush func(e *env) error
	// visible lists additional filespaces whose outside-of-root content must stay unchanged
	visible func(e *env) []filesystem.Filespace
}

type env struct {
	mem     filesystem.Filespace // parent store (memory)
	hostDir string               // parent store (disk)
	disk    filesystem.Filespace
	cache   *fscache.Cache
	origin  filesystem.Filespace // the object the view was derived from (nil: the raw store)
	after   []func()             // run before the environment is removed (restore process state)
}

func newEnv(disk bool) (*env, func(), error) {
	e := &env{}
	if disk {
		base := os.Getenv("VCHECK_SCRATCH")
		if base == "" {
			base = os.TempDir()
		}
		d, err := os.MkdirTemp(base, "c03-")
		if err != nil {
			return nil, nil, err
		}
		e.hostDir = filepath.Join(d, "store")
		for p, c := range storeFiles {
			fp := filepath.Join(e.hostDir, p)
			os.MkdirAll(filepath.Dir(fp), 0777)
			if err := os.WriteFile(fp, []byte(c), 0644); err != nil {
				return nil, nil, err
			}
		}
		for _, dd := range storeDirs {
			os.MkdirAll(filepath.Join(e.hostDir, dd), 0777)
		}
		// a look-alike of the store below another directory (where a view whose root is resolved against
		// the working directory at call time would end up after a chdir)
		for p, c := range storeFiles {
			fp := filepath.Join(d, "elsewhere", "store", p)
			os.MkdirAll(filepath.Dir(fp), 0777)
			os.WriteFile(fp, []byte("DECOY:"+c), 0644)
		}
		// a canary next to the store itself
		os.WriteFile(filepath.Join(d, "host-canary.txt"), []byte("CANARY-host"), 0644)
		if e.disk, err = diskfs.NewFilespace(e.hostDir); err != nil {
			return nil, nil, err
		}
		return e, func() {
			for _, f := range e.after {
				f()
			}
			os.RemoveAll(d)
		}, nil
	}
	e.mem, _ = memfs.NewFilespace()
	for p, c := range storeFiles {
		if err := e.mem.WriteFile(p, []byte(c), 0644); err != nil {
			return nil, nil, err
		}
	}
	for _, dd := range storeDirs {
		e.mem.MkdirAll(dd, 0777)
	}
	return e, func() {}, nil
}

func encSettings() encryptfs.Settings {
	return encryptfs.Settings{Secret: []byte("secret"), Salt: []byte("salt"), Cipher: aesgcm256cfs.NewCipher()}
}

func chain(fs filesystem.Filespace, subs ...string) (filesystem.Filespace, error) {
	var err error
	for _, s := range subs {
		if fs, err = fs.Filespace(s); err != nil {
			return nil, err
		}
	}
	return fs, nil
}

func views() []viewKind {
	memStore := func(e *env) []filesystem.Filespace { return nil }
	var vs []viewKind
	add := func(name, root string, disk bool, build func(e *env) (filesystem.Filespace, error)) {
		vs = append(vs, viewKind{Name: name, Root: root, Disk: disk, build: build, visible: memStore})
	}
	add("memfs-child", "v", false, func(e *env) (filesystem.Filespace, error) { return chain(e.mem, "v") })
	add("memfs-child-of-child", "v/n", false, func(e *env) (filesystem.Filespace, error) { return chain(e.mem, "v", "n") })
	add("memfs-child-deep-arg", "v/n", false, func(e *env) (filesystem.Filespace, error) { return chain(e.mem, "v/n") })
	add("disk-root", "v", true, func(e *env) (filesystem.Filespace, error) { return diskfs.NewFilespace(filepath.Join(e.hostDir, "v")) })
	add("disk-child", "v", true, func(e *env) (filesystem.Filespace, error) { return chain(e.disk, "v") })
	add("disk-child-of-child", "v/n", true, func(e *env) (filesystem.Filespace, error) { return chain(e.disk, "v", "n") })
	// a disk view created from a RELATIVE root; afterwards the process changes its working directory to
	// a place that holds a look-alike tree under the same relative path (the view's root is what it was
	// when the view was created - process state is environment, not part of the view)
	add("disk-root-relative-then-chdir", "v", true, func(e *env) (filesystem.Filespace, error) {
		cwd0, err := os.Getwd()
		if err != nil {
			return nil, err
		}
		e.after = append(e.after, func() { os.Chdir(cwd0) })
		if err := os.Chdir(filepath.Dir(e.hostDir)); err != nil {
			return nil, err
		}
		fs, err := diskfs.NewFilespace(filepath.Join("store", "v"))
		if err != nil {
			return nil, err
		}
		return fs, os.Chdir(filepath.Join(filepath.Dir(e.hostDir), "elsewhere"))
	})
	add("disk-child-of-relative-then-chdir", "v/n", true, func(e *env) (filesystem.Filespace, error) {
		cwd0, err := os.Getwd()
		if err != nil {
			return nil, err
		}
		e.after = append(e.after, func() { os.Chdir(cwd0) })
		if err := os.Chdir(filepath.Dir(e.hostDir)); err != nil {
			return nil, err
		}
		fs, err := diskfs.NewFilespace(filepath.Join("store", "v"))
		if err != nil {
			return nil, err
		}
		ch, err := chain(fs, "n")
		if err != nil {
			return nil, err
		}
		return ch, os.Chdir(filepath.Join(filepath.Dir(e.hostDir), "elsewhere"))
	})
	// views whose root is an empty directory inside an otherwise empty directory
	add("memfs-child-empty", "w/e", false, func(e *env) (filesystem.Filespace, error) { return chain(e.mem, "w", "e") })
	add("disk-root-empty", "w/e", true, func(e *env) (filesystem.Filespace, error) { return diskfs.NewFilespace(filepath.Join(e.hostDir, "w", "e")) })
	add("disk-child-empty", "w/e", true, func(e *env) (filesystem.Filespace, error) { return chain(e.disk, "w/e") })
	add("encrypted-over-memfs-child", "v", false, func(e *env) (filesystem.Filespace, error) {
		c, err := chain(e.mem, "v")
		if err != nil {
			return nil, err
		}
		return encryptfs.NewEncryptFS(c, encSettings())
	})
	add("child-of-encrypted-memfs", "v", false, func(e *env) (filesystem.Filespace, error) {
		enc, err := encryptfs.NewEncryptFS(e.mem, encSettings())
		if err != nil {
			return nil, err
		}
		e.origin = enc
		return chain(enc, "v")
	})
	// the same with a store that was written THROUGH the encryption (so that reads through the
	// encrypted parent and its views succeed), depth 1 and 2
	encStore := func(e *env, base filesystem.Filespace) (filesystem.Filespace, error) {
		enc, err := encryptfs.NewEncryptFS(base, encSettings())
		if err != nil {
			return nil, err
		}
		for p, c := range storeFiles {
			if err := enc.WriteFile(p, []byte(c), 0644); err != nil {
				return nil, err
			}
		}
		e.origin = enc
		return enc, nil
	}
	add("child-of-encrypted-store", "v", false, func(e *env) (filesystem.Filespace, error) {
		enc, err := encStore(e, e.mem)
		if err != nil {
			return nil, err
		}
		return chain(enc, "v")
	})
	add("child-of-child-of-encrypted-store", "v/n", false, func(e *env) (filesystem.Filespace, error) {
		enc, err := encStore(e, e.mem)
		if err != nil {
			return nil, err
		}
		return chain(enc, "v", "n")
	})
	add("child-of-encrypted-disk-store", "v/n", true, func(e *env) (filesystem.Filespace, error) {
		enc, err := encStore(e, e.disk)
		if err != nil {
			return nil, err
		}
		return chain(enc, "v/n")
	})
	add("child-of-encrypted-disk", "v", true, func(e *env) (filesystem.Filespace, error) {
		enc, err := encryptfs.NewEncryptFS(e.disk, encSettings())
		if err != nil {
			return nil, err
		}
		e.origin = enc
		return chain(enc, "v")
	})
	add("readonly-over-memfs-child", "v", false, func(e *env) (filesystem.Filespace, error) {
		c, err := chain(e.mem, "v")
		if err != nil {
			return nil, err
		}
		return fshelper.NewReadonlyFS(c), nil
	})
	ro := func(e *env, base filesystem.Filespace) filesystem.Filespace {
		e.origin = fshelper.NewReadonlyFS(base)
		return e.origin
	}
	add("child-of-readonly", "v", false, func(e *env) (filesystem.Filespace, error) { return chain(ro(e, e.mem), "v") })
	add("child-of-child-of-readonly", "v/n", false, func(e *env) (filesystem.Filespace, error) { return chain(ro(e, e.mem), "v", "n") })
	add("child-of-readonly-disk", "v", true, func(e *env) (filesystem.Filespace, error) { return chain(ro(e, e.disk), "v") })
	// view roots with a dot-prefixed name (".v" next to "v")
	add("memfs-child-dotname", ".v", false, func(e *env) (filesystem.Filespace, error) { return chain(e.mem, ".v") })
	add("disk-child-dotname", ".v", true, func(e *env) (filesystem.Filespace, error) { return chain(e.disk, ".v") })
	add("subfs-dotname", ".v", false, func(e *env) (filesystem.Filespace, error) { return fshelper.NewSubFS(e.mem, ".v"), nil })
	add("subfs-of-subfs-dotname", ".v/n", false, func(e *env) (filesystem.Filespace, error) { return chain(fshelper.NewSubFS(e.mem, ".v"), "n") })
	add("subfs-over-memfs", "v", false, func(e *env) (filesystem.Filespace, error) { return fshelper.NewSubFS(e.mem, "v"), nil })
	add("subfs-of-subfs", "v/n", false, func(e *env) (filesystem.Filespace, error) { return chain(fshelper.NewSubFS(e.mem, "v"), "n") })
	add("subfs-over-disk", "v", true, func(e *env) (filesystem.Filespace, error) { return fshelper.NewSubFS(e.disk, "v"), nil })
	// cache-backed views
	vs = append(vs, viewKind{Name: "child-of-cache", Root: "v", build: func(e *env) (filesystem.Filespace, error) {
		var err error
		if e.cache, err = fscache.NewMemCache(e.mem); err != nil {
			return nil, err
		}
		e.origin = e.cache
		return chain(e.cache, "v")
	}, flush: func(e *env) error { return e.cache.Commit() }, visible: func(e *env) []filesystem.Filespace { return []filesystem.Filespace{e.cache} }})
	vs = append(vs, viewKind{Name: "child-of-child-of-cache", Root: "v/n", build: func(e *env) (filesystem.Filespace, error) {
		var err error
		if e.cache, err = fscache.NewMemCache(e.mem); err != nil {
			return nil, err
		}
		e.origin = e.cache
		return chain(e.cache, "v", "n")
	}, flush: func(e *env) error { return e.cache.Commit() }, visible: func(e *env) []filesystem.Filespace { return []filesystem.Filespace{e.cache} }})
	vs = append(vs, viewKind{Name: "cache-over-memfs-child", Root: "v", build: func(e *env) (filesystem.Filespace, error) {
		c, err := chain(e.mem, "v")
		if err != nil {
			return nil, err
		}
		if e.cache, err = fscache.NewMemCache(c); err != nil {
			return nil, err
		}
		return e.cache, nil
	}, flush: func(e *env) error { return e.cache.Commit() }, visible: func(e *env) []filesystem.Filespace { return nil }})
	vs = append(vs, viewKind{Name: "cache-over-disk-child", Root: "v", Disk: true, build: func(e *env) (filesystem.Filespace, error) {
		c, err := chain(e.disk, "v")
		if err != nil {
			return nil, err
		}
		if e.cache, err = fscache.NewMemCache(c); err != nil {
			return nil, err
		}
		return e.cache, nil
	}, flush: func(e *env) error { return e.cache.Commit() }, visible: func(e *env) []filesystem.Filespace { return nil }})
	return vs
}

// outsideOf snapshots a walked tree without the subtree rooted at root.
func outsideOf(flat map[string]string, root string) string {
	var l []string
	for p, v := range flat {
		if p == root || strings.HasPrefix(p, root+"/") {
			continue
		}
		// ancestors of the root are directories that stay; keep them in the snapshot as well
		l = append(l, p+"="+v)
	}
	sort.Strings(l)
	return strings.Join(l, "\n")
}

func hostFlat(dir string) map[string]string {
	m := map[string]string{}
	filepath.Walk(dir, func(p string, info os.FileInfo, err error) error {
		if err != nil || p == dir {
			return nil
		}
		rel, _ := filepath.Rel(dir, p)
		if info.IsDir() {
			m[rel] = "dir"
		} else {
			b, _ := os.ReadFile(p)
			m[rel] = "file:" + string(b)
		}
		return nil
	})
	return m
}

// insideModel is the model of a view's own content (for clamped answers).
func insideModel(root string) *treefs.Node {
	t := treefs.NewDir()
	for p, c := range storeFiles {
		if !strings.HasPrefix(p, root+"/") {
			continue
		}
		rel := strings.TrimPrefix(p, root+"/")
		segs := strings.Split(rel, "/")
		cur := t
		for i, s := range segs {
			if i == len(segs)-1 {
				cur.Kids[s] = &treefs.Node{Data: c}
			} else {
				if cur.Kids[s] == nil {
					cur.Kids[s] = treefs.NewDir()
				}
				cur = cur.Kids[s]
			}
		}
	}
	return t
}

// paths enumerates all strings of <= maxSeg segments over {n, ".", "..", ""} with and without a leading "/".
func paths(maxSeg int) []string {
	segs := []string{"n", ".", "..", ""}
	var out []string
	var rec func(cur []string)
	rec = func(cur []string) {
		if len(cur) > 0 {
			p := strings.Join(cur, "/")
			out = append(out, p, "/"+p)
		}
		if len(cur) == maxSeg {
			return
		}
		for _, s := range segs {
			rec(append(append([]string{}, cur...), s))
		}
	}
	rec(nil)
	// foreign separators: a layer that canonicalises more than the layer that validated (backslash
	// accepted as a separator further down) would fold these climbing paths after the check
	for _, p := range append([]string{}, out...) {
		if strings.Contains(p, "..") && strings.Contains(p, "/") {
			out = append(out, strings.ReplaceAll(p, "/", "\\"), strings.Replace(strings.TrimPrefix(p, "/"), "/", "\\", 1))
		} else if p == ".." {
			out = append(out, "..\\n", "n\\..\\..\\n")
		}
	}
	// dedupe, keep order
	seen := map[string]bool{}
	var u []string
	for _, p := range out {
		if !seen[p] {
			seen[p] = true
			u = append(u, p)
		}
	}
	return u
}

func opsFor(p string) []treefs.Op {
	var ops []treefs.Op
	for _, k := range []string{"ReadDir", "IsExist", "IsFile", "IsDir", "Lstat", "ReadFile", "MkdirAll", "Remove", "RemoveAll"} {
		ops = append(ops, treefs.Op{Kind: k, P: p})
	}
	ops = append(ops, treefs.Op{Kind: "Reader", P: p, Buf: 64}, treefs.Op{Kind: "WriteFile", P: p, Data: "EVIL-w"}, treefs.Op{Kind: "Writer", P: p, Chunks: []string{"EVIL-", "s"}})
	for _, k := range []string{"CopyFile", "CopyDirectory", "Copy"} {
		ops = append(ops, treefs.Op{Kind: k, P: p, Q: "copydst"}, treefs.Op{Kind: k, P: benignSrc(k), Q: p})
	}
	return ops
}

func benignSrc(kind string) string {
	if kind == "CopyDirectory" {
		return "n"
	}
	return "n/n"
}

type witness struct {
	View    string    `json:"view"`
	Op      treefs.Op `json:"op"`
	Sub     string    `json:"filespace_arg,omitempty"`
	Prelude string    `json:"prelude,omitempty"`
}

type verdict struct{ kind, clause, detail string }

// runCase executes one (view, op) case on a fresh store. sub != "" additionally derives a
// child view with that (possibly escaping) argument first.
// runCase with prelude != "" first issues a harmless operation through the SAME view object
// (views may keep state: resolved paths, prepared directories, journals).
func runCase(v viewKind, op treefs.Op, sub string) *verdict { return runCasePre(v, op, sub, "") }

func runCasePre(v viewKind, op treefs.Op, sub string, prelude string) *verdict {
	var out *verdict
	res := fsx.RunSeq(func() {
		e, cleanup, err := newEnv(v.Disk)
		if err != nil {
			out = &verdict{"harness", "", err.Error()}
			return
		}
		defer cleanup()
		view, err := v.build(e)
		if err != nil {
			out = &verdict{"harness", "", "cannot build view: " + err.Error()}
			return
		}
		root := v.Root
		// pendingOutside: what the parent cache holds as PENDING writes outside the view (prelude
		// "pending-siblings"); until the flush the store lacks them, afterwards it must have them
		pendingOutside := map[string]string{}
		flushed := false
		snap := func() string {
			var parts []string
			if v.Disk {
				parts = append(parts, "host:"+outsideOf(hostFlat(filepath.Dir(e.hostDir)), "store/"+root))
			} else {
				flat, _ := fsx.Walk(e.mem)
				if !flushed {
					for p, c := range pendingOutside {
						flat[p] = c
					}
				}
				parts = append(parts, "store:"+outsideOf(flat, root))
			}
			for _, vis := range v.visible(e) {
				flat, _ := fsx.Walk(vis)
				parts = append(parts, "visible:"+outsideOf(flat, root))
			}
			return strings.Join(parts, "\n--\n")
		}
		preWritten := false
		switch prelude {
		case "write":
			preWritten = fsx.Exec(view, treefs.Op{Kind: "WriteFile", P: "pre.txt", Data: "in-pre"}).Err == ""
		case "list":
			fsx.Exec(view, treefs.Op{Kind: "ReadDir", P: "."})
			fsx.Exec(view, treefs.Op{Kind: "IsDir", P: "n"})
		case "mkdir-remove":
			fsx.Exec(view, treefs.Op{Kind: "MkdirAll", P: "pre/dir"})
			fsx.Exec(view, treefs.Op{Kind: "RemoveAll", P: "pre"})
		case "pending-siblings":
			// the parent CACHE holds pending (uncommitted) writes for nodes outside the view whose names
			// begin with the view root's name (v-sibling, vfile, v2): whatever the view does, they reach
			// the store with the next Commit
			if e.cache != nil && v.flush != nil && len(v.visible(e)) > 0 {
				for _, pw := range [][2]string{{root + "-sibling/f", "PENDING-1"}, {root + "file", "PENDING-2"}, {root + "2/deep/g", "PENDING-3"}} {
					if r := fsx.Exec(e.cache, treefs.Op{Kind: "WriteFile", P: pw[0], Data: pw[1]}); r.Err == "" {
						pendingOutside[pw[0]] = "file:" + pw[1]
						for d := filepath.Dir(pw[0]); d != "."; d = filepath.Dir(d) {
							pendingOutside[d] = "dir"
						}
					}
				}
			}
		case "copies-out":
			// the parent copied files and the whole view directory OUT of the view earlier (native copy
			// of the store): the copies live outside the root and must not follow later writes
			st := e.mem
			if v.Disk {
				st = e.disk
			}
			if st != nil {
				fsx.Exec(st, treefs.Op{Kind: "CopyFile", P: "v/n/n", Q: "outdir/copy-of-vnn"})
				fsx.Exec(st, treefs.Op{Kind: "CopyFile", P: "v/x", Q: "outdir/copy-of-vx"})
				fsx.Exec(st, treefs.Op{Kind: "CopyDirectory", P: "v", Q: "vcopy"})
			}
		case "outside-sweep":
			// every read-type operation on every node of the store through the object the view was
			// derived from, and through a sibling view: state shared between views of one tree
			// (resolved paths, decrypted or buffered content) is filled with OUTSIDE data first
			org := e.origin
			if org == nil {
				org = e.mem
				if v.Disk {
					org = e.disk
				}
			}
			sweep := func(f filesystem.Filespace, names ...string) {
				for _, n := range names {
					for _, k := range []string{"IsExist", "IsFile", "IsDir", "Lstat", "ReadDir", "ReadFile"} {
						fsx.Exec(f, treefs.Op{Kind: k, P: n})
					}
					fsx.Exec(f, treefs.Op{Kind: "Reader", P: n, Buf: 64})
				}
			}
			sweep(org, ".", "n", "outdir", "outdir/o.txt", "v", "v/n", "v/n/n", "v/x")
			if sib, err := org.Filespace("outdir"); err == nil && sib != nil {
				sweep(sib, ".", "o.txt", "n")
			}
		}
		before := snap()
		target := view
		if sub != "" {
			var panicTxt string
			func() {
				defer func() {
					if p := recover(); p != nil {
						panicTxt = fmt.Sprint(p)
					}
				}()
				target, err = view.Filespace(sub)
			}()
			if panicTxt != "" {
				out = &verdict{"panic", "no panic", "Filespace(" + sub + ") panicked: " + panicTxt}
				return
			}
			if err != nil || target == nil {
				// refused: fine
				if after := snap(); after != before {
					out = &verdict{"outside-changed", "the rest of the parent tree stays byte-identical", diffSnap(before, after)}
				}
				return
			}
		}
		r := fsx.Exec(target, op)
		if v.flush != nil {
			func() {
				defer func() { recover() }()
				// (a Commit that fails - e.g. on an operation the cache accepted and the remote refuses, a
				// recorded C06 finding - may leave part of the pending writes unsent: not this check's subject)
				flushed = v.flush(e) == nil
			}()
		}
		after := snap()
		if r.Panic != "" {
			out = &verdict{"panic", "no panic", r.Panic}
			return
		}
		if after != before {
			out = &verdict{"outside-changed", "nothing outside the view's own root is created, changed or deleted", diffSnap(before, after)}
			return
		}
		// data / listing / stat leaks
		if r.Err == "" {
			inRoot := root
			if sub != "" && op.Kind != "ReadFile" && op.Kind != "Reader" && op.Kind != "ReadDir" {
				// existence / stat oracles only for direct views (the derived view's root is unknown if it was
				// clamped); wherever it is, it lies inside the parent view's root: what a derived view returns
				// or lists is still content / a listing from inside that root
				return
			}
			model := insideModel(inRoot)
			if prelude == "write" && preWritten { // (a read-only view refuses the prelude's write)
				if ep := treefs.Apply(model, treefs.Op{Kind: "WriteFile", P: "pre.txt", Data: "in-pre"}); ep.After != nil {
					model = ep.After
				}
			}
			e2 := treefs.Apply(model, treefs.Op{Kind: op.Kind, P: op.P, Q: op.Q})
			switch op.Kind {
			case "ReadFile", "Reader":
				for p, c := range storeFiles {
					if !strings.HasPrefix(p, inRoot+"/") && strings.Contains(r.Data, c) {
						out = &verdict{"data-leak", "no operation can read anything that is not under the view's root", fmt.Sprintf("returned the content %q of %s, which is outside the view root %s", r.Data, p, inRoot)}
						return
					}
				}
			case "ReadDir":
				if !listingInside(model, r.List) {
					out = &verdict{"listing-leak", "no operation can list anything that is not under the view's root", fmt.Sprintf("returned listing %v, which is not the listing of any directory inside the view root %s", r.List, inRoot)}
					return
				}
			case "IsExist", "IsFile", "IsDir":
				ok := !r.Bool
				for _, b := range e2.BoolAlt {
					if b == r.Bool {
						ok = true
					}
				}
				if !ok {
					out = &verdict{"existence-leak", "a climbing path is rejected or resolved inside the root", fmt.Sprintf("answered true although the path resolved inside the root does not satisfy the query (it matches a node outside %s)", inRoot)}
					return
				}
			case "Lstat":
				for _, n := range []string{"ROOT", "store", "outdir", "o.txt", "v"} {
					if n == "ROOT" && v.flush != nil {
						continue // a cache's private buffer root carries the same name
					}
					if r.Name == n && !(n == "v" && inRoot == "v") {
						out = &verdict{"stat-leak", "no operation can stat anything that is not under the view's root", fmt.Sprintf("returned the stat of outside node %q", r.Name)}
						return
					}
				}
			}
		}
	})
	if out != nil {
		return out
	}
	if res.Deadlock || res.Horizon {
		return &verdict{"blocks-forever", "operations return", fmt.Sprintf("blocked: %v", res.Blocked)}
	}
	if len(res.Panics) > 0 {
		return &verdict{"panic", "no panic", res.Panics[0].Value + "\n" + res.Panics[0].Stack}
	}
	return nil
}

func listingInside(model *treefs.Node, l []string) bool {
	want := strings.Join(l, ",")
	ok := false
	var walk func(n *treefs.Node)
	walk = func(n *treefs.Node) {
		var names []string
		for k, c := range n.Kids {
			if c.Dir {
				names = append(names, k+"/")
			} else {
				names = append(names, k)
			}
		}
		sort.Strings(names)
		if strings.Join(names, ",") == want {
			ok = true
		}
		for _, c := range n.Kids {
			if c.Dir {
				walk(c)
			}
		}
	}
	walk(model)
	return ok
}

func diffSnap(a, b string) string {
	am, bm := map[string]bool{}, map[string]bool{}
	for _, l := range strings.Split(a, "\n") {
		am[l] = true
	}
	for _, l := range strings.Split(b, "\n") {
		bm[l] = true
	}
	var d []string
	for l := range am {
		if !bm[l] {
			d = append(d, "- "+l)
		}
	}
	for l := range bm {
		if !am[l] {
			d = append(d, "+ "+l)
		}
	}
	sort.Strings(d)
	if len(d) == 0 {
		// the same lines in another section (store / visible) or another multiplicity
		return "outside-the-root snapshot changed:\nBEFORE\n" + a + "\nAFTER\n" + b
	}
	return "outside-the-root snapshot changed: " + strings.Join(d, " | ")
}

func pathClass(p string) string {
	segs, esc := treefs.Norm(p)
	if esc {
		if len(segs) == 0 {
			return "climbs-to-above-root"
		}
		return "climbs-then-descends"
	}
	return "stays-inside"
}

func run(c *fw.Ctx) {
	maxSeg := 3
	if c.Thorough() {
		maxSeg = 4
	}
	ps := paths(maxSeg)
	vs := views()
	c.R.Info["paths"] = len(ps)
	c.R.Info["max_segments"] = maxSeg
	var vn []string
	for _, v := range vs {
		vn = append(vn, v.Name)
	}
	c.R.Info["view_kinds"] = vn
	item := 0
	for _, v := range vs {
		for _, p := range ps {
			item++
			if !c.Mine(item) {
				continue
			}
			if c.Expired() {
				c.NotExhaustive("deadline")
				return
			}
			type cs struct {
				op  treefs.Op
				sub string
			}
			var cases []cs
			for _, op := range opsFor(p) {
				cases = append(cases, cs{op, ""})
			}
			// the Filespace method itself with the path as argument, followed by a write and a read
			cases = append(cases, cs{treefs.Op{Kind: "WriteFile", P: "evil", Data: "EVIL-sub"}, p}, cs{treefs.Op{Kind: "ReadDir", P: "."}, p}, cs{treefs.Op{Kind: "RemoveAll", P: "n"}, p},
				cs{treefs.Op{Kind: "ReadFile", P: "n"}, p}, cs{treefs.Op{Kind: "ReadFile", P: "x"}, p}, cs{treefs.Op{Kind: "Reader", P: "o.txt", Buf: 64}, p})
			preludes := []string{"", "outside-sweep", "copies-out"}
			if esc := pathClass(p); esc != "stays-inside" {
				preludes = []string{"", "outside-sweep", "copies-out", "write", "list", "mkdir-remove"}
			}
			if v.flush != nil && strings.HasPrefix(v.Name, "child-of-cache") || strings.HasPrefix(v.Name, "child-of-child-of-cache") {
				preludes = append(preludes, "pending-siblings")
			}
			for _, k := range cases {
				for _, pre := range preludes {
					if pre == "copies-out" && k.op.Kind != "Writer" && k.op.Kind != "WriteFile" && !strings.HasPrefix(k.op.Kind, "Copy") {
						continue // aliasing between a file and its earlier copy only shows through writes
					}
					c.R.Evaluations++
					vd := runCasePre(v, k.op, k.sub, pre)
					if _, esc := treefs.Norm(p); esc {
						c.Count("escaping_path_cases", 1)
					}
					if vd == nil {
						continue
					}
					if vd.kind == "harness" {
						c.Infra("%s: %s", v.Name, vd.detail)
						return
					}
					arg := "path-arg"
					if k.sub != "" {
						arg = "via-Filespace(arg)"
					} else if k.op.Q == p && k.op.P != p {
						arg = "copy-destination"
					} else if k.op.Q != "" {
						arg = "copy-source"
					}
					sg := fmt.Sprintf("C03/%s/%s/%s/%s/%s", vd.kind, v.Name, k.op.Kind, arg, pathClass(p))
					if c.Violated(sg) {
						c.Violate(&fw.Violation{Signature: sg})
						continue
					}
					if v2 := runCasePre(v, k.op, k.sub, pre); v2 == nil || v2.kind != vd.kind {
						c.Count("unstable_candidates", 1)
						continue
					}
					c.Violate(&fw.Violation{Property: "C03", Clause: vd.clause, Signature: sg,
						Detail:  fmt.Sprintf("view kind %s (root %s of the store)\nprelude %q; Filespace arg %q; op %s\n%s", v.Name, v.Root, pre, k.sub, fsx.OpString(k.op), vd.detail),
						Witness: fw.JSON(witness{View: v.Name, Op: k.op, Sub: k.sub, Prelude: pre})})
				}
			}
			if item%4001 == 17 {
				c.Sample(map[string]interface{}{"view": v.Name, "path": p, "ops": len(cases)})
			}
		}
	}
	runSiblings(c, &item)
	c.R.Distinct = c.R.Evaluations
}

func replay(w json.RawMessage) (*fw.Violation, error) {
	var sw struct {
		Siblings *sibWit `json:"siblings"`
	}
	if err := json.Unmarshal(w, &sw); err == nil && sw.Siblings != nil {
		if vd := runSibling(*sw.Siblings); vd != nil && vd.kind != "harness" {
			return &fw.Violation{Property: "C03", Clause: vd.clause, Signature: "C03/siblings/" + vd.kind + "/replay", Detail: vd.detail}, nil
		}
		return nil, nil
	}
	var wit witness
	if err := json.Unmarshal(w, &wit); err != nil {
		return nil, err
	}
	for _, v := range views() {
		if v.Name == wit.View {
			vd := runCasePre(v, wit.Op, wit.Sub, wit.Prelude)
			if vd == nil {
				return nil, nil
			}
			return &fw.Violation{Property: "C03", Clause: vd.clause, Signature: "C03/" + vd.kind + "/" + v.Name + "/replay", Detail: vd.detail}, nil
		}
	}
	return nil, fmt.Errorf("unknown view kind %q", wit.View)
}

func init() {
	fw.Register(&fw.Check{ID: "C03", Level: "exploration",
		Rule: "all path strings of <=3 (quick) / <=4 (thorough) segments over {n, '.', '..', ''} with and without leading '/' (climbing paths also with backslash as separator, all and first only), x all 16 operations (both arguments of the copy operations, and the path used as Filespace() argument followed by write/list/remove/read: what a derived view returns or lists is content from inside the parent view's root) x 24 view kinds (memory, disk, encrypted incl. stores written through the encryption, read-only, sub-path, cache-backed; depth 1 and 2), each on a fresh store with canaries outside the view root, every case additionally after an 'outside sweep' and (writes, copies) after the parent has copied files and the view directory out of the view, (all read-type operations on every store node through the object the view was derived from and through a sibling view), climbing paths additionally after a harmless prelude (write / list / mkdir+remove) through the same view object; plus sibling views: parent views at depth 0..7 (thorough 12; step by step and with one joined path) x 5 view implementations, two children and a grandchild obtained from one parent object in 3 orders x 5 operations; distinct = (view, op, path) cases, non-trivial = all (every case touches a populated store)",
		Run:  run, Replay: replay,
		Assumptions: []string{"segment bound as stated; the 'randomly beyond the bound' part of the quantifier is not claimed", "one store shape; the view root itself counts as inside", "a result is a leak when it returns content/listing/stat of a node outside the root (canary contents and names are unique)"}})
}
