// Package c14 decides C14: pipeline tasks honour wait lists and never run after a failed
// prerequisite. Engine: task-graph enumeration x preemption-bounded exhaustive schedule
// exploration (happens-before cache) of the real runner / task manager / terminal loop inside
// a mock application bootstrapped per execution.
package c14

import (
	"encoding/json"
	"fmt"
	"github.com/goatcms/goatcore/app"
	"github.com/goatcms/goatcore/zzverif/vsched"
	"os"
	"sort"
	"strings"

	"github.com/goatcms/goatcore/app/modules/commonm/commservices"
	"github.com/goatcms/goatcore/app/modules/pipelinem/pipservices"
	"github.com/goatcms/goatcore/app/modules/pipelinem/pipservices/namespaces"

	"verif/checks/pipx"
	"verif/explore"
	"verif/fw"
)

// TaskSpec is one submitted task.
type TaskSpec struct {
	Name      string   `json:"name"`
	Wait      []string `json:"wait,omitempty"`
	Fail      string   `json:"fail,omitempty"`  // "" | return1 | append1 | return2 (which command fails and how)
	Yield     int      `json:"yield,omitempty"` // scheduling points inside each command
	Nest      string   `json:"nest,omitempty"`  // name of a task the body submits itself (pip:run) after its first command
	NestFail  bool     `json:"nest_fail,omitempty"`
	WLock     string   `json:"wlock,omitempty"`
	RLock     string   `json:"rlock,omitempty"`
	One       bool     `json:"one_command,omitempty"`     // the body is a single command
	Separated bool     `json:"separated_scope,omitempty"` // submitted in a scope with its own context (as pip:try bodies are)
	Sandbox   string   `json:"sandbox,omitempty"`         // "" = self | retfail:<id> | retok:<id> (pipx: failure reported only by Run's return value)
	// StopScope: once every task has been submitted, the harness stops this task's (separated) scope
	// gracefully - no error - while the task is still waiting for its prerequisites
	StopScope bool `json:"stop_scope_while_waiting,omitempty"`
}

// Spec of a program.
type Spec struct {
	Tasks       []TaskSpec `json:"tasks"`
	Ghost       bool       `json:"ghost_wait,omitempty"`            // additionally submit a task that waits for an unknown task
	Split       bool       `json:"split,omitempty"`                 // large program: its schedule tree is divided among all workers
	ManagerRace bool       `json:"manager_race,omitempty"`          // two goroutines ask for the scope's task manager for the first time at once
	Concurrent  bool       `json:"concurrent_submission,omitempty"` // every task is submitted from its own goroutine (first submissions race on the scope's manager)
	// SharedWait: the wait lists of all tasks are prefixes of ONE caller-owned array (the "every stage
	// waits for all earlier stages" idiom: Run(Pip{Wait: done}); done = append(done, name)); a task's
	// wait list of length k is SharedWait[:k] of a per-execution copy
	SharedWait []string `json:"shared_wait_array,omitempty"`
	Bound      int      `json:"bound"`
}

type obs struct {
	w         *pipx.World
	submitErr map[string]error
	ghostErr  error
	waitErr   error
	taskErrs  map[string]int
	done      bool
	infra     string
	race      string
	phase     string
}

func body(t TaskSpec) string {
	var l []string
	c := func(i int) string {
		s := fmt.Sprintf("probe --id=%s.c%d --yield=%d", t.Name, i, t.Yield)
		var holds []string
		for _, r := range strings.Split(t.WLock, ",") {
			if r != "" {
				holds = append(holds, r)
			}
		}
		for _, r := range strings.Split(t.RLock, ",") {
			if r != "" {
				holds = append(holds, "r:"+r)
			}
		}
		if len(holds) > 0 {
			s += " --hold=" + strings.Join(holds, ",")
		}
		if (t.Fail == "return1" && i == 1) || (t.Fail == "return2" && i == 2) {
			s += " --fail=return"
		}
		if t.Fail == "append1" && i == 1 {
			s += " --fail=append"
		}
		if t.Fail == "stop1" && i == 1 {
			s += " --stop=1" // the command stops its scope gracefully (no error) and keeps running
		}
		return s
	}
	l = append(l, c(1))
	if t.Nest != "" {
		nb := fmt.Sprintf("probe --id=%s.c1", t.Nest)
		if t.NestFail {
			nb += " --fail=return"
		}
		l = append(l, fmt.Sprintf("pip:run --name=%s --body=\"%s\"", t.Nest, nb))
	}
	if !t.One {
		l = append(l, c(2))
	}
	return strings.Join(l, "\n") + "\n"
}

func build(sp Spec, o *obs) func() {
	return func() {
		*o = obs{submitErr: map[string]error{}, taskErrs: map[string]int{}}
		w, err := pipx.New()
		if err != nil {
			o.infra = err.Error()
			return
		}
		o.w = w
		if sp.ManagerRace {
			var rwg vsched.WaitGroup
			var got [2]pipservices.TasksManager
			for i := 0; i < 2; i++ {
				i := i
				rwg.Add(1)
				vsched.Spawn(func() {
					defer rwg.Done()
					got[i], _ = w.Tasks.FromScope(w.Root)
				})
			}
			rwg.Wait()
			kept, _ := w.Tasks.FromScope(w.Root)
			if got[0] != got[1] || got[0] != kept {
				o.race = "two first requests for the scope's task manager returned different managers (tasks accepted by the replaced one are unknown to the scope's manager)"
			}
		}
		var swg vsched.WaitGroup
		var toStop []app.Scope
		sharedWait := append(make([]string, 0, len(sp.SharedWait)+2), sp.SharedWait...)
		for _, t := range sp.Tasks {
			t := t
			lock := commservices.LockMap{}
			for _, r := range strings.Split(t.WLock, ",") {
				if r != "" {
					lock[r] = commservices.LockRW
				}
			}
			for _, r := range strings.Split(t.RLock, ",") {
				if r != "" {
					lock[r] = commservices.LockR
				}
			}
			var tscope app.Scope
			if t.Separated {
				if tscope, err = w.Separated(); err != nil {
					o.infra = err.Error()
					return
				}
				if t.StopScope {
					toStop = append(toStop, tscope)
				}
			}
			wait := t.Wait
			if sp.SharedWait != nil && len(t.Wait) > 0 && len(t.Wait) <= len(sp.SharedWait) && strings.Join(t.Wait, ",") == strings.Join(sp.SharedWait[:len(t.Wait)], ",") {
				wait = sharedWait[:len(t.Wait)]
			}
			pip := w.Pip(t.Name, body(t), wait, lock, tscope)
			if i := strings.LastIndex(t.Name, ":"); i >= 0 {
				// "p:a" = the task a submitted in the namespace p (the manager knows it as p:a; its own short
				// name is a - the same as that of the top-level task a)
				pip.Name = t.Name[i+1:]
				pip.Namespaces = namespaces.NewNamespaces(pipservices.NamasepacesParams{Task: t.Name[:i], Lock: ""})
			}
			if t.Sandbox != "" {
				pip.Sandbox = t.Sandbox
			}
			if sp.Concurrent {
				swg.Add(1)
				vsched.Spawn(func() {
					defer swg.Done()
					err := w.Runner.Run(pip)
					o.submitErr[t.Name] = err
				})
				continue
			}
			o.submitErr[t.Name] = w.Runner.Run(pip)
		}
		swg.Wait()
		for _, ts := range toStop {
			ts.Stop()
		}
		if sp.Ghost {
			o.ghostErr = w.Runner.Run(w.Pip("ghostwaiter", "probe --id=ghostwaiter.c1\n", []string{"no-such-task"}, nil, nil))
		}
		var tm pipservices.TasksManager
		if tm, err = w.Tasks.FromScope(w.Root); err != nil {
			o.infra = err.Error()
			return
		}
		o.waitErr = tm.Wait()
		for _, n := range tm.Names() {
			if t, ok := tm.Get(n); ok {
				o.taskErrs[n] = len(t.Errors())
			}
		}
		w.Root.Wait()
		// every task has finished: every named resource must be free again (a lock taken for a task that
		// gave up, or by a helper goroutine nobody listens to any more, would block all later holders)
		o.phase = "release-check"
		var names []string
		for _, t := range sp.Tasks {
			for _, r := range strings.Split(t.WLock+","+t.RLock, ",") {
				if r != "" {
					names = append(names, r)
				}
			}
		}
		sort.Strings(names)
		for _, r := range names {
			w.Mutex.Lock(commservices.LockMap{r: commservices.LockRW}).Unlock()
		}
		o.done = true
	}
}

func judge(sp Spec, o *obs) func(x *explore.Exec) *explore.Verdict {
	return func(x *explore.Exec) *explore.Verdict {
		if o.infra != "" {
			return &explore.Verdict{Kind: "harness-error", Clause: "", Detail: o.infra}
		}
		if !o.done && o.phase == "release-check" {
			return &explore.Verdict{Kind: "resource-never-released", Clause: "acquisition never deadlocks: any set of holders always all get their turn", Detail: "all tasks have finished, but a write lock on one of the resources they named can not be taken any more (a lock acquired on behalf of a task was never released)\nevents: " + o.w.Render()}
		}
		if !o.done {
			return &explore.Verdict{Kind: "not-finished", Clause: "every accepted submission eventually finishes and waiting on the task manager returns", Detail: "TasksManager.Wait (or the root scope's Wait) never returned"}
		}
		w := o.w
		v := func(kind, clause, format string, a ...interface{}) *explore.Verdict {
			return &explore.Verdict{Kind: kind, Clause: clause, Detail: fmt.Sprintf(format, a...) + "\nevents: " + w.Render()}
		}
		byName := map[string]TaskSpec{}
		for ti, t := range sp.Tasks {
			byName[t.Name] = t
			if unusableSandbox(t) {
				if o.submitErr[t.Name] == nil {
					return v("unusable-sandbox-accepted", "every accepted submission eventually finishes", "submission of %s with the unknown sandbox %q was accepted", t.Name, t.Sandbox)
				}
				if len(w.EventsOf(t.Name+".")) > 0 {
					return v("refused-task-ran", "a refused submission never runs", "task %s was refused but executed", t.Name)
				}
				continue
			}
			if invalidWait(sp, ti) {
				// the wait list names the task itself or a task submitted later: not "already existing"
				if o.submitErr[t.Name] == nil {
					return v("invalid-wait-accepted", "a task may only wait for tasks that already exist", "submission of %s with wait list %v was accepted", t.Name, t.Wait)
				}
				continue
			}
			if o.submitErr[t.Name] != nil && !anyOtherFails(sp, t.Name) {
				return v("valid-submission-refused", "a task may wait for tasks that already exist", "submission of %s (wait %v) was refused: %v", t.Name, t.Wait, o.submitErr[t.Name])
			}
		}
		if sp.Ghost && o.ghostErr == nil {
			return v("unknown-wait-accepted", "a task may only wait for tasks that already exist", "a submission waiting for 'no-such-task' was accepted")
		}
		if len(w.EventsOf("ghostwaiter")) > 0 {
			return v("refused-task-ran", "a refused submission never runs", "the refused task executed a command")
		}
		// which tasks fail by themselves, and which must be skipped
		selfFails := func(t TaskSpec) bool {
			return (t.Fail != "" && t.Fail != "stop1") || strings.HasPrefix(t.Sandbox, "retfail:")
		}
		var mustSkip func(name string, seen map[string]bool) bool
		failed := func(name string, seen map[string]bool) bool {
			t := byName[name]
			return selfFails(t) || mustSkip(name, seen)
		}
		mustSkip = func(name string, seen map[string]bool) bool {
			if seen[name] {
				return false
			}
			seen[name] = true
			for _, wn := range byName[name].Wait {
				if failed(wn, seen) {
					return true
				}
			}
			return false
		}
		anyFailed := false
		for _, t := range sp.Tasks {
			evs := w.EventsOf(t.Name + ".")
			if o.submitErr[t.Name] != nil {
				// refused because the shared context had already ended: it must simply never run
				if len(evs) > 0 {
					return v("refused-task-ran", "a refused submission never runs", "task %s was refused (%v) but executed", t.Name, o.submitErr[t.Name])
				}
				continue
			}
			if mustSkip(t.Name, map[string]bool{}) {
				anyFailed = true
				if len(evs) > 0 {
					return v("ran-after-failed-prerequisite/"+t.Name, "if any awaited task finished with an error the body is never executed", "task %s executed although a task it waits for failed", t.Name)
				}
				if o.taskErrs[t.Name] == 0 {
					return v("skipped-task-not-failed/"+t.Name, "a task whose prerequisite failed itself ends failed", "task %s was skipped but holds no error", t.Name)
				}
				continue
			}
			if selfFails(t) {
				anyFailed = true
			}
			// wait order
			for _, wn := range t.Wait {
				lastEnd := 0
				for _, e := range w.EventsOf(wn + ".") {
					if e.Step > lastEnd {
						lastEnd = e.Step
					}
				}
				if len(evs) > 0 && evs[0].Step < lastEnd {
					return v("started-before-prerequisite-finished/"+t.Name, "a task starts executing its body only after every task named in its wait list has finished", "task %s began at step %d, but %s was still running at step %d", t.Name, evs[0].Step, wn, lastEnd)
				}
			}
			// sequential body, script order, stop at the first failing command
			var seq []string
			for _, e := range evs {
				seq = append(seq, e.Kind+":"+strings.TrimPrefix(e.ID, t.Name+"."))
			}
			got := strings.Join(seq, " ")
			if t.Sandbox != "" {
				// the foreign sandbox does not run the body: it logs one begin/end pair itself
				if got != "begin:sb end:sb" {
					return v("sandbox-did-not-run/"+t.Name, "every accepted submission eventually finishes", "task %s (sandbox %s) executed [%s]", t.Name, t.Sandbox, got)
				}
				if selfFails(t) && o.taskErrs[t.Name] == 0 {
					return v("failed-task-holds-no-error/"+t.Name, "a task whose sandbox reports a failure ends failed", "task %s holds no error", t.Name)
				}
				continue
			}
			full := "begin:c1 end:c1 begin:c2 end:c2"
			if t.One {
				full = "begin:c1 end:c1"
			}
			allowed := map[string]bool{}
			switch t.Fail {
			case "":
				allowed[full] = true
			case "return1":
				allowed["begin:c1 end:c1"] = true
			case "return2":
				allowed[full] = true
			case "append1", "stop1":
				// the command reported the error itself (or stopped the scope) and returned nil: the loop may
				// still pick the next line
				allowed["begin:c1 end:c1"] = true
				allowed[full] = true
			}
			// a failure elsewhere ends the shared context; a body may then be cut short (prefix), never reordered
			if anyOtherFails(sp, t.Name) {
				for _, p := range []string{"", "begin:c1 end:c1", full} {
					allowed[p] = true
				}
			}
			if !allowed[got] {
				kind := "body-order/" + t.Name
				if t.Fail == "return1" && strings.Contains(got, "c2") {
					kind = "ran-after-failing-command/" + t.Name
				}
				return v(kind, "within one body commands run one at a time in script order and stop at the first failing command", "task %s executed [%s]", t.Name, got)
			}
			if selfFails(t) && o.taskErrs[t.Name] == 0 {
				return v("failed-task-holds-no-error/"+t.Name, "a task with a failing command ends failed", "task %s holds no error", t.Name)
			}
			// nested submission
			if t.Nest != "" && got == full {
				nev := w.EventsOf(t.Nest + ".")
				if len(nev) != 2 && !anyOtherFails(sp, "") {
					return v("nested-task-did-not-run/"+t.Name, "every accepted submission eventually finishes", "task %s submitted %s, which executed %d events", t.Name, t.Nest, len(nev))
				}
			}
		}
		for _, t := range sp.Tasks {
			if t.NestFail {
				anyFailed = true
			}
		}
		if o.race != "" {
			return v("task-manager-not-unique", "waiting on the task manager returns once all accepted submissions have finished", "%s", o.race)
		}
		if sp.Concurrent {
			for _, t := range sp.Tasks {
				if _, known := o.taskErrs[t.Name]; o.submitErr[t.Name] == nil && !known {
					return v("accepted-task-unknown-to-manager/"+t.Name, "waiting on the task manager returns once all accepted submissions have finished", "task %s was accepted but the scope's task manager does not know it (names with results: %v)", t.Name, o.taskErrs)
				}
			}
		}
		if (o.waitErr != nil) != anyFailed {
			return v("manager-wait-result", "waiting on the task manager reports an error exactly when some task failed", "TasksManager.Wait returned %v, some task failed: %v (errors per task %v)", o.waitErr, anyFailed, o.taskErrs)
		}
		if w.ExclViolation != "" {
			return v("lock-exclusion-violated", "a writer of a named resource excludes every other holder of it", "%s", w.ExclViolation)
		}
		// named resource locks around bodies (binds C15 to the runner)
		for res, n := range w.MaxInside {
			if !strings.HasPrefix(res, "r:") && n > 1 {
				return v("write-locked-bodies-overlap", "two tasks whose lock maps name the same resource for writing never hold it at the same time", "%d task bodies were inside resource %q at once", n, res)
			}
		}
		return nil
	}
}

// invalidWait: the wait list of task ti names itself, a task submitted later, or a task whose own
// submission had to be refused.
// unusableSandbox: the submission names a sandbox that no builder knows - the runner has to refuse it,
// and a refused submission is not a task anybody can wait for.
func unusableSandbox(t TaskSpec) bool { return strings.HasPrefix(t.Sandbox, "nosuch:") }

func invalidWait(sp Spec, ti int) bool {
	for _, wn := range sp.Tasks[ti].Wait {
		ok := false
		for j := 0; j < ti; j++ {
			if sp.Tasks[j].Name == wn && !invalidWait(sp, j) && !unusableSandbox(sp.Tasks[j]) {
				ok = true
			}
		}
		if !ok {
			return true
		}
	}
	return false
}

func anyOtherFails(sp Spec, except string) bool {
	for _, t := range sp.Tasks {
		if (t.Name != except && (t.Fail != "" || strings.HasPrefix(t.Sandbox, "retfail:"))) || t.NestFail {
			return true
		}
	}
	return false
}

func programs(thorough bool) []Spec {
	b := 0
	if thorough {
		b = 1
	}
	var ps []Spec
	t := func(name string, wait ...string) TaskSpec { return TaskSpec{Name: name, Wait: wait} }
	fail := func(ts TaskSpec, f string) TaskSpec { ts.Fail = f; return ts }
	// two tasks
	for _, f1 := range []string{"", "return1", "append1", "return2"} {
		// the dependent pair is cheap (the tasks are serialised): one preemption more than the rest
		ps = append(ps, Spec{Tasks: []TaskSpec{fail(t("a"), f1), t("b", "a")}, Bound: b + 1})
		// (two CONCURRENT tasks: ~10^6 executions with one preemption - thorough explores that for the plain and
		// the first-command-fails variant, the other two stay at free switches)
		bb := b
		if f1 == "append1" || f1 == "return2" {
			bb = 0
		}
		ps = append(ps, Spec{Tasks: []TaskSpec{fail(t("a"), f1), t("b")}, Bound: bb, Split: thorough && bb > 0})
	}
	// two prerequisites with the same short name in different namespaces (a and p:a) are two tasks
	for _, f := range []string{"", "return1"} {
		ps = append(ps, Spec{Tasks: []TaskSpec{t("a"), fail(t("p:a", "a"), f), t("c", "a", "p:a")}, Bound: b})
	}
	y := t("a")
	y.Yield = 1
	ps = append(ps, Spec{Tasks: []TaskSpec{y, t("b", "a")}, Bound: b, Ghost: true})
	// three tasks: every DAG shape with a failing root / middle
	shapes := [][][]string{
		{nil, {"a"}, {"a"}}, {nil, {"a"}, {"b"}}, {nil, nil, {"a", "b"}}, {nil, {"a"}, {"a", "b"}}, {nil, nil, {"b"}},
	}
	for si, sh := range shapes {
		// shapes in which two of the three tasks run concurrently need ~10^4 executions each even
		// without preemptions: thorough tier only (bound 0 there), chains also in the quick tier
		parallel := si == 0 || si == 2 || si == 4
		if parallel && !thorough {
			continue
		}
		for _, ff := range [][3]string{{"", "", ""}, {"return1", "", ""}, {"", "append1", ""}, {"return2", "", ""}} {
			bb := b
			if parallel {
				bb = 0
			}
			ps = append(ps, Spec{Tasks: []TaskSpec{fail(t("a", sh[0]...), ff[0]), fail(t("b", sh[1]...), ff[1]), fail(t("c", sh[2]...), ff[2])}, Bound: bb, Split: thorough && parallel})
		}
	}
	// wait lists that are not acyclic / name tasks that do not exist yet: refused, and everything
	// accepted still finishes
	ps = append(ps, Spec{Tasks: []TaskSpec{t("a", "a")}, Bound: b})
	ps = append(ps, Spec{Tasks: []TaskSpec{t("a"), t("b", "a", "b")}, Bound: b})
	ps = append(ps, Spec{Tasks: []TaskSpec{t("a", "b"), t("b")}, Bound: b})
	ps = append(ps, Spec{Tasks: []TaskSpec{t("a"), t("b", "b"), t("c", "a")}, Bound: b})
	// nested submissions from inside a body
	n := t("a")
	n.Nest = "inner"
	ps = append(ps, Spec{Tasks: []TaskSpec{n, t("b", "a")}, Bound: b})
	n.NestFail = true
	ps = append(ps, Spec{Tasks: []TaskSpec{n}, Bound: b})
	// named locks around the bodies
	l1, l2 := t("a"), t("b")
	l1.WLock, l2.WLock, l1.Yield, l2.Yield = "res", "res", 1, 1
	ps = append(ps, Spec{Tasks: []TaskSpec{l1, l2}, Bound: b})
	l2.WLock, l2.RLock = "", "res"
	ps = append(ps, Spec{Tasks: []TaskSpec{l1, l2}, Bound: b})
	ps = append(ps, LockWaitPrograms(thorough)...)
	// wait lists that are prefixes of one caller-owned array, not in sorted order (z before a)
	// (a <- z keeps the program nearly sequential: only c and d may overlap)
	sa, sz, sc, sd := t("a"), t("z", "a"), t("c", "z"), t("d", "z", "a")
	sz.Yield = 1
	sz.One, sa.One, sc.One, sd.One = true, true, true, true
	sc.Sandbox, sd.Sandbox = "retok:c.sb", "retok:d.sb" // (cheap bodies: the two may overlap)
	ps = append(ps, Spec{Tasks: []TaskSpec{sa, sz, sc, sd}, SharedWait: []string{"z", "a"}, Bound: 0, Split: true})
	// first submissions racing on a scope that has no task manager yet
	one := t("a")
	one.One = true
	ps = append(ps, Spec{Tasks: []TaskSpec{one}, Bound: 2, ManagerRace: true})
	// tasks living in a scope with its own context (their failure does not reach the root scope)
	for _, f1 := range []string{"return1", "append1"} {
		sa := fail(t("a"), f1)
		sa.Separated = true
		sb := t("b", "a")
		sb.Separated = true
		ps = append(ps, Spec{Tasks: []TaskSpec{sa, t("b")}, Bound: b}, Spec{Tasks: []TaskSpec{sa, sb}, Bound: b + 1}, Spec{Tasks: []TaskSpec{t("c"), sa}, Bound: b})
	}
	// a chain a <- b <- c in scopes of their own; b's scope is stopped gracefully while b waits for a, then
	// a fails: b ends failed all the same, and c never runs
	ca, cb, cc := fail(t("a"), "return1"), t("b", "a"), t("c", "b")
	ca.Separated, cb.Separated, cc.Separated = true, true, true
	ca.Yield, cb.StopScope = 1, true
	ca.One, cb.One, cc.One = true, true, true
	ps = append(ps, Spec{Tasks: []TaskSpec{ca, cb, cc}, Bound: b})
	// a submission the runner has to refuse (unknown sandbox) is not a task: whoever names it in a wait
	// list is refused as well and never runs
	ns := t("a")
	ns.Sandbox = "nosuch:box"
	ps = append(ps, Spec{Tasks: []TaskSpec{ns, t("b", "a")}, Bound: b + 1}, Spec{Tasks: []TaskSpec{ns, t("b", "a"), t("c")}, Bound: b})
	// a prerequisite whose scope is stopped gracefully (no error) while its command is still running: the
	// dependent - in a scope with a context of its own - still waits for the END of the task
	st := fail(t("a"), "stop1")
	st.Separated, st.Yield = true, 1
	sdep := t("b", "a")
	sdep.Separated = true
	ps = append(ps, Spec{Tasks: []TaskSpec{st, sdep}, Bound: 1}) // (bound 2 costs 0.4 M executions)
	// tasks in a sandbox that reports success / failure only through its return value
	rf, rk := t("a"), t("a")
	rf.Sandbox, rk.Sandbox = "retfail:a.sb", "retok:a.sb"
	ps = append(ps, Spec{Tasks: []TaskSpec{rf, t("b", "a")}, Bound: b + 1}, Spec{Tasks: []TaskSpec{rk, t("b", "a")}, Bound: b + 1}, Spec{Tasks: []TaskSpec{rf, t("b")}, Bound: b})
	return ps
}

// LockWaitPrograms combine wait lists with named locks (shared with C15: a task must not hold its
// resources while it is blocked on its wait list - the wait relation and the locks would form a cycle).
func LockWaitPrograms(thorough bool) []Spec {
	t := func(name string, wait ...string) TaskSpec { return TaskSpec{Name: name, Wait: wait} }
	var ps []Spec
	third, first, second := t("a-third"), t("b-first"), t("c-second", "b-first")
	third.WLock, third.Yield = "alpha", 1
	first.WLock = "alpha,beta"
	second.WLock = "beta"
	third.One, first.One, second.One = true, true, true
	ps = append(ps, Spec{Tasks: []TaskSpec{third, first, second}, Bound: 0})
	// the same with read locks on the shared resource, and a two-task variant
	second.WLock, second.RLock = "", "beta"
	ps = append(ps, Spec{Tasks: []TaskSpec{third, first, second}, Bound: 0})
	x, y := t("a"), t("b", "a")
	x.WLock, y.WLock, x.Yield = "res", "res", 1
	b := 0
	if thorough {
		b = 1
	}
	ps = append(ps, Spec{Tasks: []TaskSpec{x, y}, Bound: b + 1})
	// a holder that fails (ending the shared context) while another task waits for its resource: the
	// waiting task may be cancelled, the resource must be free afterwards
	h, wt := t("a"), t("b")
	h.WLock, wt.WLock, h.Yield, h.Fail = "res", "res", 1, "return1"
	ps = append(ps, Spec{Tasks: []TaskSpec{h, wt}, Bound: b})
	wt.WLock, wt.RLock = "", "res"
	ps = append(ps, Spec{Tasks: []TaskSpec{h, wt}, Bound: 0})
	// two tasks naming one resource for writing, run by a sandbox whose Run returns while its work is
	// still registered on the task scope: the locks are held until the task has finished, not until Run
	// has returned
	a1, a2 := t("a"), t("b")
	a1.WLock, a2.WLock = "res", "res"
	a1.Sandbox, a2.Sandbox = "async:a.sb:res", "async:b.sb:res"
	ps = append(ps, Spec{Tasks: []TaskSpec{a1, a2}, Bound: b + 1})
	return ps
}

var focus = []string{"pipservices/runner", "pipservices/tasks", "app/scope", "commservices/mutex", "terminal/termexec", "checks/c14", "checks/pipx"}

func mkProgram(sp Spec) *explore.Program { return MkProgramFor("C14", sp) }

// MkProgramFor builds the program under the given property id (C15 registers the lock programs too).
func MkProgramFor(prop string, sp Spec) *explore.Program {
	o := &obs{}
	var l []string
	for _, t := range sp.Tasks {
		s := t.Name
		if len(t.Wait) > 0 {
			s += "<-" + strings.Join(t.Wait, ",")
		}
		if t.Fail != "" {
			s += "!" + t.Fail
		}
		if t.Nest != "" {
			s += "+nest"
		}
		if t.Separated {
			s += "~sep"
		}
		if sp.Concurrent {
			s += "~conc"
		}
		if sp.ManagerRace {
			s += "~manager-race"
		}
		if t.Sandbox != "" {
			s += "@" + t.Sandbox
		}
		if t.WLock != "" {
			s += "#w:" + t.WLock
		}
		if t.RLock != "" {
			s += "#r:" + t.RLock
		}
		l = append(l, s)
	}
	sort.Strings(l)
	return &explore.Program{Prop: prop, Name: "runner: " + strings.Join(l, " "), Spec: sp,
		Opt:  explore.Options{Bound: sp.Bound, Focus: focus, MaxSteps: 30000, HBR: true, HBRAuxNeutral: true, NoShard: !sp.Split, SelectCost: -1},
		Body: build(sp, o), Judge: judge(sp, o),
		Outcome: func() string {
			if o.w == nil {
				return ""
			}
			return o.w.Render()
		},
	}
}

func run(c *fw.Ctx) {
	ps := programs(c.Thorough())
	c.R.Info["programs_total"] = len(ps)
	c.R.Info["focus"] = focus
	for i, sp := range ps {
		if only := os.Getenv("VCHECK_ONLY"); only != "" && mkProgram(sp).Name != only {
			continue
		} else if only != "" {
			i = c.Shard
		}
		if !sp.Split && !c.Mine(i) {
			continue
		}
		if c.Expired() {
			c.NotExhaustive("deadline")
			break
		}
		if os.Getenv("VCHECK_DETERMINISM") != "" {
			p := mkProgram(sp)
			if d := explore.Determinism(p.Opt, p.Body, 6); d != "" {
				c.SetAdd("determinism", p.Name+": "+d)
			}
			continue
		}
		if !explore.RunProgram(c, mkProgram(sp)) && c.R.InfraError != "" {
			return
		}
		if i%9 == 1 {
			c.Sample(map[string]interface{}{"program": sp})
		}
	}
}

func replay(wj json.RawMessage) (*fw.Violation, error) {
	var w struct {
		Spec    Spec  `json:"spec"`
		Choices []int `json:"choices"`
	}
	if err := json.Unmarshal(wj, &w); err != nil {
		return nil, err
	}
	return explore.ReplayProgram(mkProgram(w.Spec), w.Choices)
}

func init() {
	fw.Register(&fw.Check{ID: "C14", Level: "model_checking",
		Rule: "programs = task graphs on 2-3 tasks (all wait shapes incl. diamonds and chains) x failing command variants (first/second command returns an error; a command appends an error to its scope) x body durations x a submission waiting for an unknown task, for itself, or for a task submitted later x nested pip:run from inside a body x write/read resource locks (also combined with wait lists) x a sandbox that reports its outcome only through its return value x tasks submitted in a scope with its own context x two concurrent first requests for the scope's task manager; a mock application (terminal, common, open-container and pipeline modules) is bootstrapped per execution, tasks are submitted through the real Runner and run in the real self sandbox (terminal read-execute loop) with probe commands; every schedule with <= bound preemptions (quick: free context switches at blocking points only, chains and two-task graphs; thorough: 1 preemption for chains and two-task graphs, free switches for three-task graphs with concurrent tasks) with a happens-before state cache; oracle on the probe event log. states = distinct schedule traces",
		Run:  run, Replay: replay,
		Assumptions: []string{"tasks under one parent scope share its context: after any failure a sibling body may be cut short (prefix), which the statement does not forbid; only order, never-after-failure and the results are judged", "a command that reports its error through AppendError and returns nil does not stop its own loop deterministically (select between done and the next line); only commands that return an error must stop the body"}})
}
