// Package c04 decides C04: streams and cross-filespace copies are byte-exact and replace
// old content; copy helpers report an error whenever the destination is incomplete.
// Engine: bounded exhaustive enumeration (contents x chunkings x previous destination state
// x buffer sizes x backends), all source/destination backend pairs for the copy helpers, and
// exhaustive single (thorough: double) fault positions during each copy.
package c04

import (
	"io"
	"encoding/json"
	"fmt"
	"os"
	"path/filepath"
	"sort"
	"strings"

	"github.com/goatcms/goatcore/filesystem"
	"github.com/goatcms/goatcore/filesystem/filespace/diskfs"
	"github.com/goatcms/goatcore/filesystem/filespace/encryptfs"
	"github.com/goatcms/goatcore/filesystem/filespace/encryptfs/cipherfs/aesgcm256cfs"
	"github.com/goatcms/goatcore/filesystem/filespace/memfs"
	"github.com/goatcms/goatcore/filesystem/fscache"
	"github.com/goatcms/goatcore/filesystem/fshelper"
	"github.com/goatcms/goatcore/workers"

	"verif/explore"
	"verif/fsx"
	"verif/fw"
	"verif/models/treefs"
)

var backends = []string{"mem", "disk", "enc-mem", "enc-disk", "cache-mem"}

var seq int

func diskDir() string {
	base := os.Getenv("VCHECK_SCRATCH")
	if base == "" {
		base = os.TempDir()
	}
	seq++
	d := filepath.Join(base, fmt.Sprintf("c04-%d", seq))
	os.MkdirAll(d, 0777)
	return d
}

func encOver(b filesystem.Filespace) filesystem.Filespace {
	fs, err := encryptfs.NewEncryptFS(b, encryptfs.Settings{Secret: []byte("k"), Salt: []byte("s"), Cipher: aesgcm256cfs.NewCipher()})
	if err != nil {
		panic(err)
	}
	return fs
}

func newBackend(kind string) (filesystem.Filespace, func()) {
	enc := func(b filesystem.Filespace) filesystem.Filespace {
		fs, err := encryptfs.NewEncryptFS(b, encryptfs.Settings{Secret: []byte("k"), Salt: []byte("s"), Cipher: aesgcm256cfs.NewCipher()})
		if err != nil {
			panic(err)
		}
		return fs
	}
	switch kind {
	case "mem":
		fs, _ := memfs.NewFilespace()
		return fs, func() {}
	case "disk":
		d := diskDir()
		fs, _ := diskfs.NewFilespace(d)
		return fs, func() { os.RemoveAll(d) }
	case "enc-mem":
		fs, _ := memfs.NewFilespace()
		return enc(fs), func() {}
	case "enc-disk":
		d := diskDir()
		fs, _ := diskfs.NewFilespace(d)
		return enc(fs), func() { os.RemoveAll(d) }
	case "cache-mem":
		fs, _ := memfs.NewFilespace()
		c, err := fscache.NewMemCache(fs)
		if err != nil {
			panic(err)
		}
		return c, func() {}
	}
	panic("unknown backend " + kind)
}

func big(n int) string {
	b := make([]byte, n)
	for i := range b {
		b[i] = byte('a' + (i*11+i/7)%26)
	}
	return string(b)
}

// splits returns every split of s into exactly three (possibly empty) chunks; long contents
// use a fixed set of cut points.
func splits(s string) [][]string {
	n := len(s)
	cuts := []int{}
	if n <= 4 {
		for i := 0; i <= n; i++ {
			cuts = append(cuts, i)
		}
	} else {
		cuts = []int{0, 1, n / 2, 4096, n - 1, n}
	}
	var out [][]string
	out = append(out, []string{}, []string{s})
	for _, i := range cuts {
		for _, j := range cuts {
			if i <= j && j <= n && i <= n {
				out = append(out, []string{s[:i], s[i:j], s[j:]})
			}
		}
	}
	return out
}

type streamWit struct {
	Backend string   `json:"backend"`
	Prev    string   `json:"previous"` // absent|empty|shorter|longer|equal|directory
	Chunks  []string `json:"chunks"`
	Buf     int      `json:"buf"`
	Via     string   `json:"via,omitempty"` // "" all chunks through Write | mixed: Write / io.WriteString / io.Copy in turn
}

func prevContent(kind, data string) (string, bool) {
	switch kind {
	case "empty":
		return "", true
	case "shorter":
		if len(data) == 0 {
			return "", true
		}
		return data[:len(data)/2], true
	case "longer":
		return data + "TAIL-OF-OLD-CONTENT", true
	case "equal":
		return data, true
	}
	return "", false
}

// streamCase: write chunks through a writer over the given previous state, read back.
func streamCase(w streamWit) (kind, detail string) {
	data := strings.Join(w.Chunks, "")
	res := fsx.RunSeq(func() {
		fs, done := newBackend(w.Backend)
		defer done()
		fs.MkdirAll("d", 0777)
		if w.Prev == "directory" {
			fs.MkdirAll("d/f", 0777)
		} else if pc, ok := prevContent(w.Prev, data); ok {
			if err := fs.WriteFile("d/f", []byte(pc), 0644); err != nil {
				kind, detail = "setup", err.Error()
				return
			}
		}
		r := fsx.Exec(fs, treefs.Op{Kind: "Writer", P: "d/f", Chunks: w.Chunks, Via: w.Via})
		if r.Panic != "" {
			kind, detail = "panic", r.Panic
			return
		}
		if w.Prev == "directory" {
			if r.Err == "" {
				kind, detail = "writer-on-directory-succeeded", "opening a writer on a directory succeeded"
			} else if !fs.IsDir("d/f") {
				kind, detail = "writer-on-directory-destroyed-it", "the directory is gone after the refused writer"
			}
			return
		}
		if r.Err != "" || r.Note != "" {
			kind, detail = "writer-failed", fmt.Sprintf("err=%q note=%q", r.Err, r.Note)
			return
		}
		got := fsx.Exec(fs, treefs.Op{Kind: "ReadFile", P: "d/f"})
		if !got.OK() || got.Data != data {
			kind, detail = "content-after-close/"+classify(got.Data, data, w.Prev), fmt.Sprintf("wrote chunks %s (total %d bytes) over previous=%s; ReadFile: err=%q panic=%q returned %d bytes: %s", chunkLens(w.Chunks), len(data), w.Prev, got.Err, got.Panic, len(got.Data), shortDiff(got.Data, data))
			return
		}
		rd := fsx.Exec(fs, treefs.Op{Kind: "Reader", P: "d/f", Buf: w.Buf})
		if !rd.OK() || rd.Data != data {
			kind, detail = "reader-mismatch", fmt.Sprintf("Reader with buffer %d: err=%q panic=%q returned %d bytes, stored %d: %s", w.Buf, rd.Err, rd.Panic, len(rd.Data), len(data), shortDiff(rd.Data, data))
			return
		}
		// the reader drained through io.Copy (WriteTo fast path), alone and after a header of Buf bytes
		for _, via := range []string{"copy", "head+copy"} {
			rc := fsx.Exec(fs, treefs.Op{Kind: "Reader", P: "d/f", Buf: w.Buf, Via: via})
			if !rc.OK() || rc.Data != data {
				kind, detail = "reader-mismatch/"+via, fmt.Sprintf("Reader drained via %s (header %d bytes): err=%q panic=%q returned %d bytes, stored %d: %s", via, w.Buf, rc.Err, rc.Panic, len(rc.Data), len(data), shortDiff(rc.Data, data))
				return
			}
		}
		// on disk the same file reached through a second name (a symbolic link made by the host): the
		// stored bytes are the target's (what the node's own metadata says about a link is another matter)
		if lp, ok := fs.(interface{ LocalPath() string }); ok && w.Backend == "disk" {
			if err := os.Symlink("f", filepath.Join(lp.LocalPath(), "d", "link-to-f")); err == nil {
				for _, op := range []treefs.Op{{Kind: "ReadFile", P: "d/link-to-f"}, {Kind: "Reader", P: "d/link-to-f", Buf: w.Buf}, {Kind: "Reader", P: "d/link-to-f", Buf: w.Buf, Via: "copy"}} {
					rl := fsx.Exec(fs, op)
					if !rl.OK() || rl.Data != data {
						kind, detail = "reader-mismatch/through-symlink", fmt.Sprintf("%s on a symbolic link to the file: err=%q panic=%q returned %d bytes, stored %d: %s", fsx.OpString(op), rl.Err, rl.Panic, len(rl.Data), len(data), shortDiff(rl.Data, data))
						return
					}
				}
			}
		}
	})
	if kind == "" && (res.Deadlock || res.Horizon) {
		kind, detail = "blocks-forever", fmt.Sprint(res.Blocked)
	}
	if kind == "" && len(res.Panics) > 0 {
		kind, detail = "panic", res.Panics[0].Value
	}
	return
}

// pairWit: two writers (then two readers) open at the same time, used in alternation with ONE
// caller buffer that is overwritten after every call.
type pairWit struct {
	B1, B2 string
	D1, D2 string
	Order  string
}

func expandBig(s string) string {
	var n int
	if _, err := fmt.Sscanf(s, "big(%d)", &n); err == nil {
		return big(n)
	}
	return s
}

func pairCase(w pairWit) (kind, detail string) {
	d1, d2 := expandBig(w.D1), expandBig(w.D2)
	res := fsx.RunSeq(func() {
		fs1, done1 := newBackend(w.B1)
		defer done1()
		fs2 := fs1
		if w.B2 != w.B1 {
			var done2 func()
			fs2, done2 = newBackend(w.B2)
			defer done2()
		}
		defer func() {
			if p := recover(); p != nil {
				kind, detail = "panic", fmt.Sprint(p)
			}
		}()
		w1, err := fs1.Writer("one.bin")
		if err != nil {
			kind, detail = "writer-failed", err.Error()
			return
		}
		w2, err := fs2.Writer("two.bin")
		if err != nil {
			kind, detail = "writer-failed", err.Error()
			return
		}
		buf := make([]byte, 0, 4096)
		i1, i2 := 0, 0
		put := func(wr io.Writer, data string, pos *int, n int) bool {
			if *pos >= len(data) {
				return true
			}
			end := *pos + n
			if end > len(data) {
				end = len(data)
			}
			buf = append(buf[:0], data[*pos:end]...)
			k, err := wr.Write(buf)
			for i := range buf {
				buf[i] = '#'
			}
			if err != nil || k != end-*pos {
				kind, detail = "writer-failed", fmt.Sprintf("Write returned %d, %v", k, err)
				return false
			}
			*pos = end
			return true
		}
		for i1 < len(d1) || i2 < len(d2) {
			if !put(w1, d1, &i1, 4096) || !put(w2, d2, &i2, 1500) {
				return
			}
		}
		var e1, e2 error
		if w.Order == "close-1-2" {
			e1, e2 = w1.Close(), w2.Close()
		} else {
			e2, e1 = w2.Close(), w1.Close()
		}
		if e1 != nil || e2 != nil {
			kind, detail = "writer-failed", fmt.Sprintf("Close: %v / %v", e1, e2)
			return
		}
		// two readers in alternation, small and large buffer
		r1, err1 := fs1.Reader("one.bin")
		r2, err2 := fs2.Reader("two.bin")
		if err1 != nil || err2 != nil {
			kind, detail = "reader-failed", fmt.Sprintf("%v / %v", err1, err2)
			return
		}
		var g1, g2 []byte
		b1, b2 := make([]byte, 7), make([]byte, 4096)
		end1, end2 := false, false
		for guard := 0; (!end1 || !end2) && guard < 200000; guard++ {
			if !end1 {
				n, err := r1.Read(b1)
				g1 = append(g1, b1[:n]...)
				if err != nil {
					end1 = true
					if err != io.EOF {
						kind, detail = "reader-failed", err.Error()
						return
					}
				}
			}
			if !end2 {
				n, err := r2.Read(b2)
				g2 = append(g2, b2[:n]...)
				if err != nil {
					end2 = true
					if err != io.EOF {
						kind, detail = "reader-failed", err.Error()
						return
					}
				}
			}
		}
		r1.Close()
		r2.Close()
		if string(g1) != d1 {
			kind, detail = "content-differs", fmt.Sprintf("two writers open at once on %s and %s (one re-used caller buffer), then two readers in alternation: one.bin (%d bytes written) reads %d bytes: %s", w.B1, w.B2, len(d1), len(g1), shortDiff(string(g1), d1))
			return
		}
		if string(g2) != d2 {
			kind, detail = "content-differs", fmt.Sprintf("two writers open at once on %s and %s (one re-used caller buffer), then two readers in alternation: two.bin (%d bytes written) reads %d bytes: %s", w.B1, w.B2, len(d2), len(g2), shortDiff(string(g2), d2))
		}
	})
	if kind == "" && (res.Deadlock || res.Horizon) {
		kind, detail = "blocks-forever", fmt.Sprint(res.Blocked)
	}
	if kind == "" && len(res.Panics) > 0 {
		kind, detail = "panic", res.Panics[0].Value
	}
	return
}

func classify(got, want, prev string) string {
	switch {
	case strings.HasSuffix(got, want) && len(got) > len(want):
		return "old-content-kept-before-new"
	case strings.HasPrefix(got, want) && len(got) > len(want):
		return "old-tail-kept"
	default:
		return "different"
	}
}

func chunkLens(c []string) string {
	var l []string
	for _, s := range c {
		l = append(l, fmt.Sprint(len(s)))
	}
	return "[" + strings.Join(l, ",") + "]"
}

func shortDiff(got, want string) string {
	if len(got) < 40 && len(want) < 40 {
		return fmt.Sprintf("got %q want %q", got, want)
	}
	i := 0
	for i < len(got) && i < len(want) && got[i] == want[i] {
		i++
	}
	return fmt.Sprintf("first difference at byte %d (got len %d, want len %d)", i, len(got), len(want))
}

// ---- copy helpers ----

type tree map[string]string // path -> content; a trailing "/" marks an (empty) directory

var trees = []tree{
	{"f": "x"},
	{"f": "", "d/g": "yy"},
	{"d/e/f": "xyz", "d/g": "", "h": big(5000)},
	{"e/": "", "f": "x"},
	{"big": big(70 * 1024), "d/small": "s"}, // larger than io.Copy's 32 KiB transfer buffer: several Read/Write rounds
	// siblings whose names differ by a typical scratch suffix, the suffixed one created FIRST (a memory
	// source lists in creation order): a writer that stages its data under a derived sibling name
	// destroys a real file
	{"k.tmp": "T1", "k": "K", "m~": "T2", "m": "M", "n.new": "T3", "n": "N", "p.part": "T4", "p": "P", "q.bak": "T5", "q": "Q"},
}

// createdDescending: trees that are built in descending name order (see above).
func createdDescending(t tree) bool { _, ok := t["k.tmp"]; return ok }

func build(fs filesystem.Filespace, t tree) error {
	var ps []string
	for p := range t {
		ps = append(ps, p)
	}
	sort.Strings(ps)
	if createdDescending(t) {
		sort.Sort(sort.Reverse(sort.StringSlice(ps)))
	}
	for _, p := range ps {
		if strings.HasSuffix(p, "/") {
			if err := fs.MkdirAll(strings.TrimSuffix(p, "/"), 0777); err != nil {
				return err
			}
			continue
		}
		if dir := filepath.Dir(p); dir != "." {
			if err := fs.MkdirAll(dir, 0777); err != nil {
				return err
			}
		}
		if err := fs.WriteFile(p, []byte(t[p]), 0644); err != nil {
			return err
		}
	}
	return nil
}

func (t tree) flat() map[string]string {
	m := map[string]string{}
	for p, c := range t {
		if strings.HasSuffix(p, "/") {
			m[strings.TrimSuffix(p, "/")] = "dir"
			continue
		}
		m[p] = "file:" + c
		for d := filepath.Dir(p); d != "."; d = filepath.Dir(d) {
			m[d] = "dir"
		}
	}
	return m
}

type copyWit struct {
	Helper string `json:"helper"` // Copy | Copier.Do(dir) | Copier.Do(file) | StreamCopy
	Src    string `json:"src_backend"`
	Dst    string `json:"dst_backend"`
	Tree   int    `json:"tree"`
	Path   string `json:"path,omitempty"`
	Fail   []int  `json:"fail_calls,omitempty"`
	Short  bool   `json:"short_write,omitempty"`
	FaultBelowEnc bool `json:"fault_below_encryption,omitempty"`
	Sched  []int  `json:"schedule,omitempty"`
	// DstPre is the state of the destination before the call: "" empty | "older" the same paths with
	// other (longer and shorter) content | "file-at-dir" regular files where the source has
	// directories | "dir-at-file" directories where the source has files | "extra" unrelated nodes
	DstPre string `json:"dst_pre,omitempty"`
}

type copyOut struct {
	err      string
	panicTxt string
	complete bool
	conflict bool // the destination pre-state cannot hold the copy without replacing a node of another kind
	diff     string
	calls    int
	hits     []string
	deadlock bool
}

// runCopy executes one copy helper call with the given fault set under the given schedule.
func runCopy(w copyWit, opt *explore.Options) (copyOut, *explore.Exec) {
	var o copyOut
	t := trees[w.Tree]
	body := func() {
		o = copyOut{}
		workers.MaxJob = 2
		srcRaw, sdone := newBackend(w.Src)
		defer sdone()
		dstRaw, ddone := newBackend(w.Dst)
		defer ddone()
		if err := build(srcRaw, t); err != nil {
			o.err = "harness: " + err.Error()
			return
		}
		in := &fsx.Injector{Fail: map[int]bool{}, Short: w.Short}
		for _, k := range w.Fail {
			in.Fail[k] = true
		}
		var src, dst filesystem.Filespace = &fsx.FaultFS{Inner: srcRaw, In: in, Tag: "src"}, &fsx.FaultFS{Inner: dstRaw, In: in, Tag: "dst"}
		if w.FaultBelowEnc {
			// the failing layer sits UNDER the encryption: a base write that fails while the
			// encrypted stream is being closed must surface as the helper's error
			if strings.HasPrefix(w.Dst, "enc-") {
				base, bdone := newBackend(strings.TrimPrefix(w.Dst, "enc-"))
				defer bdone()
				dstRaw = encOver(&fsx.FaultFS{Inner: base, In: in, Tag: "dstbase"})
				dst = dstRaw
			}
			if strings.HasPrefix(w.Src, "enc-") {
				base, bdone := newBackend(strings.TrimPrefix(w.Src, "enc-"))
				defer bdone()
				srcRaw = encOver(&fsx.FaultFS{Inner: base, In: in, Tag: "srcbase"})
				if err := build(srcRaw, t); err != nil {
					o.err = "harness: " + err.Error()
					return
				}
				in.N, in.Log, in.Hits = 0, nil, nil
				src = srcRaw
			}
		}
		var err error
		want := t.flat()
		if w.DstPre != "" {
			pw := want
			switch w.Helper {
			case "Copier.Do(dir)":
				pw = prefix(want, "out")
			case "Copier.Do(file)":
				pw = map[string]string{"copy.bin": "file:" + t[w.Path]}
			case "StreamCopy":
				pw = map[string]string{w.Path: "file:" + t[w.Path]}
			}
			var perr error
			if o.conflict, perr = prestate(dstRaw, pw, w.DstPre); perr != nil {
				o.err = "harness: prestate: " + perr.Error()
				return
			}
			in.N, in.Log, in.Hits = 0, nil, nil
		}
		func() {
			defer func() {
				if p := recover(); p != nil {
					o.panicTxt = fmt.Sprint(p)
				}
			}()
			switch w.Helper {
			case "Copy":
				err = fshelper.Copy(src, dst, nil)
			case "Copier.Do(dir)":
				err = fshelper.Copier{SrcFS: src, SrcPath: ".", DestFS: dst, DestPath: "out"}.Do()
				want = prefix(want, "out")
			case "Copier.Do(file)":
				err = fshelper.Copier{SrcFS: src, SrcPath: w.Path, DestFS: dst, DestPath: "copy.bin"}.Do()
				want = map[string]string{"copy.bin": "file:" + t[w.Path]}
			case "StreamCopy":
				if d := filepath.Dir(w.Path); d != "." {
					dstRaw.MkdirAll(d, 0777)
				}
				err = fshelper.StreamCopy(src, dst, w.Path)
				want = map[string]string{w.Path: "file:" + t[w.Path]}
				for d := filepath.Dir(w.Path); d != "."; d = filepath.Dir(d) {
					want[d] = "dir"
				}
			}
		}()
		if err != nil {
			o.err = err.Error()
		}
		o.calls, o.hits = in.N, in.Hits
		if w.DstPre != "" {
			// (the pre-state was built inside the deferred-panic block's predecessor; see prestate)
			in.Fail = map[int]bool{}
			got, probs := fsx.Walk(dstRaw)
			o.complete = len(probs) == 0
			var missing []string
			for p, v := range want {
				if got[p] != v {
					o.complete = false
					missing = append(missing, fmt.Sprintf("%s: want %s got %q", p, short(v), short(got[p])))
				}
			}
			sort.Strings(missing)
			if !o.complete {
				o.diff = strings.Join(missing, "; ") + " " + strings.Join(probs, ";")
			}
			return
		}
		if err != nil && len(in.Hits) > 0 {
			// the failure was reported: nothing more is required (and an error path that leaks an
			// open handle must not hang the verification walk)
			o.complete = false
			return
		}
		in.Fail = map[int]bool{} // verification reads must not be faulted
		got, probs := fsx.Walk(dstRaw)
		o.complete = fsx.FlatKey(got) == fsx.FlatKey(want) && len(probs) == 0
		if !o.complete {
			o.diff = fsx.DiffFlat(want, got) + " " + strings.Join(probs, ";")
		}
	}
	var x *explore.Exec
	if opt == nil {
		res := fsx.RunSeq(body)
		o.deadlock = res.Deadlock || res.Horizon
		if len(res.Panics) > 0 && o.panicTxt == "" {
			o.panicTxt = res.Panics[0].Value + "\n" + res.Panics[0].Stack
		}
	} else {
		var err error
		x, err = explore.RunOnce(opt, w.Sched, body)
		if err != nil {
			o.err = "harness: " + err.Error()
			return o, nil
		}
		o.deadlock = x.Res.Deadlock || x.Res.Horizon
		if len(x.Res.Panics) > 0 && o.panicTxt == "" {
			o.panicTxt = x.Res.Panics[0].Value + "\n" + x.Res.Panics[0].Stack
		}
	}
	return o, x
}

func short(v string) string {
	if len(v) > 40 {
		return v[:40] + fmt.Sprintf("...(%d bytes)", len(v))
	}
	return v
}

// prestate fills the destination before the copy. It reports whether the copy cannot succeed
// without replacing a node by one of the other kind (then an error is an acceptable answer).
func prestate(dst filesystem.Filespace, want map[string]string, mode string) (conflict bool, err error) {
	var ps []string
	for p := range want {
		ps = append(ps, p)
	}
	sort.Strings(ps)
	mk := func(p string) error {
		if d := filepath.Dir(p); d != "." {
			return dst.MkdirAll(d, 0777)
		}
		return nil
	}
	switch mode {
	case "older":
		for i, p := range ps {
			if want[p] == "dir" {
				if err = dst.MkdirAll(p, 0777); err != nil {
					return
				}
				continue
			}
			if err = mk(p); err != nil {
				return
			}
			old := "o"
			if i%2 == 0 {
				old = strings.TrimPrefix(want[p], "file:") + "-OLD-AND-LONGER"
			}
			if err = dst.WriteFile(p, []byte(old), 0644); err != nil {
				return
			}
		}
	case "extra":
		if err = dst.MkdirAll("zz-extra/dir", 0777); err != nil {
			return
		}
		err = dst.WriteFile("zz-extra/file", []byte("extra"), 0644)
	case "file-at-dir":
		covered := func(p string) bool {
			for _, q := range ps {
				if want[q] == "dir" && q != p && strings.HasPrefix(p, q+"/") {
					return true
				}
			}
			return false
		}
		for _, p := range ps {
			if want[p] == "dir" && !covered(p) {
				conflict = true
				if err = mk(p); err != nil {
					return
				}
				if err = dst.WriteFile(p, []byte("stale file"), 0644); err != nil {
					return
				}
			}
		}
	case "dir-at-file":
		for _, p := range ps {
			if want[p] != "dir" {
				conflict = true
				if err = dst.MkdirAll(p, 0777); err != nil {
					return
				}
			}
		}
	}
	return
}

func prefix(m map[string]string, p string) map[string]string {
	out := map[string]string{p: "dir"}
	for k, v := range m {
		out[p+"/"+k] = v
	}
	return out
}

// judgeCopy applies the oracle.
func judgeCopy(w copyWit, o copyOut) (kind, clause, detail string) {
	if strings.HasPrefix(o.err, "harness:") {
		return "harness", "", o.err
	}
	if o.panicTxt != "" {
		return "panic", "no panic", o.panicTxt
	}
	if o.deadlock {
		return "blocks-forever", "the helper returns", "the copy helper never returned"
	}
	if w.DstPre != "" && len(w.Fail) == 0 {
		if o.err != "" && !o.conflict {
			return "copy-over-existing-destination-failed/" + w.DstPre, "copy helpers reproduce a source file or tree whether or not something existed there before", "destination pre-state " + w.DstPre + ": the helper failed: " + o.err
		}
		if o.err == "" && !o.complete {
			return "nil-but-incomplete/" + w.DstPre, "an error is reported whenever the destination is not a complete copy", "destination pre-state " + w.DstPre + ": the helper returned nil, but the destination does not hold the source: " + o.diff
		}
		return "", "", ""
	}
	if len(w.Fail) == 0 {
		if o.err != "" {
			return "fault-free-copy-failed", "copy helpers reproduce a source file or tree in any destination backend", "no fault injected but the helper failed: " + o.err
		}
		if !o.complete {
			return "fault-free-copy-incomplete", "the destination equals the source byte-for-byte", "helper returned nil but: " + o.diff
		}
		return "", "", ""
	}
	if o.err == "" && !o.complete {
		return "nil-but-incomplete", "an error is reported whenever the destination is not a complete copy", fmt.Sprintf("injected failure at %v; the helper returned nil, but the destination is incomplete: %s", o.hits, o.diff)
	}
	return "", "", ""
}

func helperCases() []copyWit {
	var out []copyWit
	for ti, t := range trees {
		out = append(out, copyWit{Helper: "Copy", Tree: ti}, copyWit{Helper: "Copier.Do(dir)", Tree: ti})
		var files []string
		for p := range t {
			if !strings.HasSuffix(p, "/") {
				files = append(files, p)
			}
		}
		sort.Strings(files)
		for _, f := range files {
			out = append(out, copyWit{Helper: "Copier.Do(file)", Tree: ti, Path: f}, copyWit{Helper: "StreamCopy", Tree: ti, Path: f})
		}
	}
	return out
}

func run(c *fw.Ctx) {
	item := 0
	report := func(sig, clause, detail string, wit interface{}, again func() bool) {
		if c.Violated(sig) {
			c.Violate(&fw.Violation{Signature: sig})
			return
		}
		if again != nil && !again() {
			c.Count("unstable_candidates", 1)
			return
		}
		c.Violate(&fw.Violation{Property: "C04", Clause: clause, Signature: sig, Detail: detail, Witness: fw.JSON(wit)})
	}
	// ---- part A: streams ----
	contents := []string{"", "x", "xyz", big(5 * 1024)}
	prevs := []string{"absent", "empty", "shorter", "longer", "equal", "directory"}
	bufs := []int{1, 2, 3, 4096}
	for _, b := range backends {
		for _, data := range contents {
			for _, ch := range splits(data) {
				for _, pv := range prevs {
					for _, bf := range bufs {
						if len(data) > 100 && bf < 3 && !c.Thorough() {
							continue
						}
						item++
						if !c.Mine(item) {
							continue
						}
						if c.Expired() {
							c.NotExhaustive("deadline in stream part")
							return
						}
						for _, via := range []string{"", "mixed"} {
							w := streamWit{b, pv, ch, bf, via}
							if via == "mixed" && (len(ch) < 2 || bf != 4096) {
								continue
							}
							c.R.Evaluations++
							c.Count("stream_cases", 1)
							kind, detail := streamCase(w)
							if kind == "setup" {
								continue
							}
							if kind != "" {
								report("C04/stream/"+kind+"/"+b+"/prev-"+pv, "after Close the file content is exactly the concatenation of the chunks; a reader returns exactly the stored bytes", fmt.Sprintf("backend %s (chunks written via %q)\n%s", b, via, detail), map[string]interface{}{"stream": w},
									func() bool { k2, _ := streamCase(w); return k2 == kind })
							}
						}
					}
				}
			}
		}
	}
	// ---- part A2: two streams open at the same time on one backend (and across two backends) ----
	for _, b1 := range backends {
		for _, b2 := range backends {
			for _, d := range [][2]string{{"x", "yz"}, {"", "abc"}, {big(5000), "s"}, {big(40000), big(33000)}} {
				for _, order := range []string{"close-1-2", "close-2-1"} {
					item++
					if !c.Mine(item) {
						continue
					}
					pw := pairWit{b1, b2, d[0], d[1], order}
					c.R.Evaluations++
					c.Count("stream_pair_cases", 1)
					if kind, detail := pairCase(pw); kind != "" {
						pws := pw
						if len(pws.D1) > 64 {
							pws.D1 = fmt.Sprintf("big(%d)", len(pw.D1))
						}
						if len(pws.D2) > 64 {
							pws.D2 = fmt.Sprintf("big(%d)", len(pw.D2))
						}
						report("C04/stream-pair/"+kind+"/"+b1+"+"+b2, "after Close the file content is exactly the concatenation of the chunks; a reader returns exactly the stored bytes", detail, map[string]interface{}{"pair": pws},
							func() bool { k2, _ := pairCase(pw); return k2 == kind })
					}
				}
			}
		}
	}
	// ---- part B + C: copy helpers, fault-free and with every single failing call ----
	cases := helperCases()
	for _, sb := range backends {
		for _, db := range backends {
			for _, hc := range cases {
				item++
				if !c.Mine(item) {
					continue
				}
				if c.Expired() {
					c.NotExhaustive("deadline in copy part")
					return
				}
				w := hc
				w.Src, w.Dst = sb, db
				o, _ := runCopy(w, nil)
				c.R.Evaluations++
				c.Count("copy_cases_fault_free", 1)
				kind, clause, detail := judgeCopy(w, o)
				if kind == "harness" {
					c.Infra("%s", detail)
					return
				}
				if kind != "" {
					w0 := w
					report(fmt.Sprintf("C04/copy/%s/%s/%s->%s", kind, w.Helper, sb, db), clause, fmt.Sprintf("%s of tree %d (path %q) from %s to %s\n%s", w.Helper, w.Tree, w.Path, sb, db, detail), map[string]interface{}{"copy": w0},
						func() bool { o2, _ := runCopy(w0, nil); k2, _, _ := judgeCopy(w0, o2); return k2 == kind })
					continue
				}
				// the same call over every destination pre-state
				for _, pre := range []string{"older", "extra", "file-at-dir", "dir-at-file"} {
					wp := w
					wp.DstPre = pre
					op, _ := runCopy(wp, nil)
					c.R.Evaluations++
					c.Count("copy_cases_over_existing_destination", 1)
					if kind, clause, detail := judgeCopy(wp, op); kind != "" && kind != "harness" {
						wpc := wp
						report(fmt.Sprintf("C04/copy/%s/%s", kind, w.Helper), clause, fmt.Sprintf("%s of tree %d (path %q) from %s to %s\n%s", w.Helper, w.Tree, w.Path, sb, db, detail), map[string]interface{}{"copy": wpc},
							func() bool { o2, _ := runCopy(wpc, nil); k2, _, _ := judgeCopy(wpc, o2); return k2 == kind })
					} else if kind == "harness" {
						c.Count("prestate_not_buildable", 1)
					}
				}
				n := o.calls
				c.Max("fault_positions_per_copy", int64(n))
				// disk-backed pairs only in the thorough tier for the fault sweep (same code paths, slower)
				if !c.Thorough() && (strings.Contains(sb, "disk") && strings.Contains(db, "disk")) {
					continue
				}
				for _, short := range []bool{false, true} {
					for k := 1; k <= n; k++ {
						wf := w
						wf.Fail, wf.Short = []int{k}, short
						of, _ := runCopy(wf, nil)
						c.R.Evaluations++
						c.Count("fault_positions", 1)
						kind, clause, detail := judgeCopy(wf, of)
						if kind == "harness" {
							continue
						}
						if short && len(of.hits) > 0 && !strings.HasSuffix(of.hits[0], ".Write") {
							continue // short-write variant only differs for Write calls
						}
						if kind != "" {
							what := "?"
							if len(of.hits) > 0 {
								what = of.hits[0][strings.Index(of.hits[0], " ")+1:]
							}
							if short {
								what += "(short-write)"
							}
							wfc := wf
							report(fmt.Sprintf("C04/copy/%s/%s/fault-at-%s", kind, w.Helper, what), clause, fmt.Sprintf("%s of tree %d (path %q) from %s to %s, failing call #%d of %d\n%s", w.Helper, w.Tree, w.Path, sb, db, k, n, detail), map[string]interface{}{"copy": wfc},
								func() bool { o2, _ := runCopy(wfc, nil); k2, _, _ := judgeCopy(wfc, o2); return k2 == kind })
						}
					}
				}
				// faults below the encryption layer (ciphertext is written when the stream is closed)
				if strings.HasPrefix(sb, "enc-") || strings.HasPrefix(db, "enc-") {
					wb := w
					wb.FaultBelowEnc = true
					ob, _ := runCopy(wb, nil)
					for k := 1; k <= ob.calls; k++ {
						wf := wb
						wf.Fail = []int{k}
						of, _ := runCopy(wf, nil)
						c.R.Evaluations++
						c.Count("fault_positions_below_encryption", 1)
						if kind, clause, detail := judgeCopy(wf, of); kind != "" && kind != "harness" {
							what := "?"
							if len(of.hits) > 0 {
								what = of.hits[0][strings.Index(of.hits[0], " ")+1:]
							}
							wfc := wf
							report(fmt.Sprintf("C04/copy/%s/%s/fault-below-encryption-at-%s", kind, w.Helper, what), clause, fmt.Sprintf("%s of tree %d (path %q) from %s to %s, failing base call #%d of %d (fault layer below the encryption)\n%s", w.Helper, w.Tree, w.Path, sb, db, k, ob.calls, detail), map[string]interface{}{"copy": wfc},
								func() bool { o2, _ := runCopy(wfc, nil); k2, _, _ := judgeCopy(wfc, o2); return k2 == kind })
						}
					}
				}
				// thorough: every pair of failing calls for the memory-to-memory tree copies
				if c.Thorough() && sb == "mem" && db == "mem" && n <= 60 {
					for k1 := 1; k1 <= n; k1++ {
						for k2 := k1 + 1; k2 <= n; k2++ {
							wf := w
							wf.Fail = []int{k1, k2}
							of, _ := runCopy(wf, nil)
							c.R.Evaluations++
							c.Count("fault_pairs", 1)
							if kind, clause, detail := judgeCopy(wf, of); kind != "" && kind != "harness" {
								wfc := wf
								report(fmt.Sprintf("C04/copy/%s/%s/two-faults", kind, w.Helper), clause, fmt.Sprintf("%s tree %d mem->mem failing calls %v\n%s", w.Helper, w.Tree, wf.Fail, detail), map[string]interface{}{"copy": wfc}, nil)
							}
						}
					}
				}
			}
		}
	}
	// ---- part D: the concurrent tree copy under every schedule with <=1 (thorough 2) preemptions ----
	bound := 1
	if c.Thorough() {
		bound = 2
	}
	for ti := range trees {
		for _, pair := range [][2]string{{"mem", "mem"}, {"mem", "cache-mem"}} {
			item++
			if !c.Mine(item) {
				continue
			}
			w := copyWit{Helper: "Copy", Tree: ti, Src: pair[0], Dst: pair[1]}
			opt := explore.Options{Bound: bound, Focus: []string{"filesystem/fsloop", "workers/jobsync"}, NoShard: true, Deadline: c.Deadline, MaxSteps: 20000}
			var last copyOut
			st, err := explore.Explore(opt, func() {
				ww := w
				var o copyOut
				_ = ww
				o, _ = copyBody(w)
				last = o
			}, func(x *explore.Exec) bool {
				o := last
				o.deadlock = x.Res.Deadlock || x.Res.Horizon
				if len(x.Res.Panics) > 0 {
					o.panicTxt = x.Res.Panics[0].Value
				}
				if kind, clause, detail := judgeCopy(w, o); kind != "" && kind != "harness" {
					ws := w
					ws.Sched = x.Choices
					report(fmt.Sprintf("C04/copy/%s/Copy/under-schedule", kind), clause, fmt.Sprintf("fshelper.Copy tree %d %s->%s under schedule %v\n%s", ti, pair[0], pair[1], x.Choices, detail), map[string]interface{}{"copy": ws}, nil)
				}
				return true
			})
			if err != nil {
				c.Infra("schedule exploration: %v", err)
				return
			}
			c.R.Evaluations += st.Execs
			c.Count("copy_schedules", st.Execs)
			if st.Capped {
				c.NotExhaustive("schedule exploration of fshelper.Copy capped: " + st.CapReason)
			}
		}
	}
	c.R.Distinct = c.R.Evaluations
	c.Sample(map[string]interface{}{"stream": streamWit{"enc-disk", "longer", []string{"x", "", "yz"}, 2, ""}})
	c.Sample(map[string]interface{}{"copy": copyWit{Helper: "Copy", Src: "disk", Dst: "enc-mem", Tree: 2, Fail: []int{7}}})
}

// copyBody is runCopy's body without its own scheduler run (used under the schedule explorer).
func copyBody(w copyWit) (copyOut, error) {
	var o copyOut
	t := trees[w.Tree]
	workers.MaxJob = 2
	srcRaw, sdone := newBackend(w.Src)
	defer sdone()
	dstRaw, ddone := newBackend(w.Dst)
	defer ddone()
	if err := build(srcRaw, t); err != nil {
		o.err = "harness: " + err.Error()
		return o, err
	}
	err := fshelper.Copy(srcRaw, dstRaw, nil)
	if err != nil {
		o.err = err.Error()
	}
	got, probs := fsx.Walk(dstRaw)
	want := t.flat()
	o.complete = fsx.FlatKey(got) == fsx.FlatKey(want) && len(probs) == 0
	if !o.complete {
		o.diff = fsx.DiffFlat(want, got) + " " + strings.Join(probs, ";")
	}
	return o, nil
}

func replay(wj json.RawMessage) (*fw.Violation, error) {
	var w struct {
		Stream *streamWit `json:"stream"`
		Copy   *copyWit   `json:"copy"`
		Pair   *pairWit   `json:"pair"`
	}
	if err := json.Unmarshal(wj, &w); err != nil {
		return nil, err
	}
	if w.Pair != nil {
		if kind, detail := pairCase(*w.Pair); kind != "" {
			return &fw.Violation{Property: "C04", Clause: "stream byte-exactness", Signature: "C04/stream-pair/" + kind + "/replay", Detail: detail}, nil
		}
		return nil, nil
	}
	if w.Stream != nil {
		if kind, detail := streamCase(*w.Stream); kind != "" && kind != "setup" {
			return &fw.Violation{Property: "C04", Clause: "stream byte-exactness", Signature: "C04/stream/" + kind + "/replay", Detail: detail}, nil
		}
		return nil, nil
	}
	if w.Copy != nil {
		var o copyOut
		if len(w.Copy.Sched) > 0 {
			opt := explore.Options{Bound: -1, Focus: []string{"filesystem/fsloop", "workers/jobsync"}, MaxSteps: 20000}
			x, err := explore.RunOnce(&opt, w.Copy.Sched, func() { o, _ = copyBody(*w.Copy) })
			if err != nil {
				return nil, err
			}
			o.deadlock = x.Res.Deadlock
		} else {
			o, _ = runCopy(*w.Copy, nil)
		}
		if kind, clause, detail := judgeCopy(*w.Copy, o); kind != "" && kind != "harness" {
			return &fw.Violation{Property: "C04", Clause: clause, Signature: "C04/copy/" + kind + "/replay", Detail: detail}, nil
		}
		return nil, nil
	}
	return nil, fmt.Errorf("empty witness")
}

func init() {
	fw.Register(&fw.Check{ID: "C04", Level: "fault_enumeration",
		Rule: "streams: backends{mem,disk,enc-mem,enc-disk,cache-mem} x contents{'', 'x', 'xyz', 5KiB} x every split into <=3 chunks (incl. empty chunks; fixed cut points for the long content; all chunks through Write, and Write / io.WriteString / io.Copy in turn on one handle) x previous destination{absent,empty,shorter,longer,equal,directory} x read buffers{1,2,3,4096} (Read loop; io.Copy; a header taken with Read followed by io.Copy; on disk also through a symbolic link to the file); two writers (then two readers) open at the same time on every backend pair, fed in alternation from one re-used caller buffer, both close orders, contents up to 40 KiB; copy helpers {fshelper.Copy, Copier.Do(dir), Copier.Do(file), StreamCopy} x 6 tree shapes (one with a 70 KiB file, i.e. several rounds of the 32 KiB copy loop; one with sibling names that differ by a scratch suffix .tmp ~ .new .part .bak, the suffixed file created first) x all 25 source/destination backend pairs, fault-free over 5 destination pre-states (empty, same paths with older longer/shorter content, unrelated nodes, regular files where the source has directories, directories where the source has files: nil result => every source node present with its kind and bytes) and with EVERY single numbered call (open/Read/Write/Close/MkdirAll/ReadDir/IsFile/IsDir/Filespace, on source and destination; error and short-write variants) failing, for encrypted backends also with the failing layer below the encryption; thorough adds every pair of failing calls (memory) and preemption bound 2 for the concurrent tree copy. distinct = cases; all run the real code",
		Run: run, Replay: replay,
		Assumptions: []string{"fault positions are the calls crossing the Filespace/Reader/Writer interfaces (harness-side wrapper)", "a bool query 'fails' by answering false", "fshelper.Copy runs under the controlled scheduler: default schedule for the fault sweep, bounded preemptions for the fault-free case"}})
}
