// Package c11 decides C11: the scope close protocol (ordered events, commit xor rollback,
// waits for tasks and children, shared vs isolated failure). Engine: program enumeration
// (scope trees x task bodies x listener sets) x preemption-bounded exhaustive schedule
// exploration of the real scope / eventscope / contextscope code.
package c11

import (
	"encoding/json"
	"errors"
	"fmt"
	"strings"

	"github.com/goatcms/goatcore/app"
	"github.com/goatcms/goatcore/app/scope"
	"github.com/goatcms/goatcore/app/scope/contextscope"
	"github.com/goatcms/goatcore/zzverif/vsched"

	"verif/explore"
	"verif/fw"
)

// Spec of one program. Scopes are named R (root), C (child of R), G (child of C), I (isolated child of R).
type Spec struct {
	Scopes   []string            `json:"scopes"`  // subset of R,C,G,I (R always)
	Tasks    map[string][]string `json:"tasks"`   // scope -> task bodies: none|err|kill|stop|yield
	FailOn   string              `json:"fail_on"` // "" or "<scope>:<event>" - a listener returning an error
	Bound    int                 `json:"bound"`
	LateTask bool                `json:"late_task"` // the task reports its error only after the closer has started (forced order)
	// SecondCloser: once the root's closer is inside Close (waiting for the late task), ANOTHER goroutine
	// calls Close on the root as well: it must be refused loudly, not answered
	SecondCloser bool `json:"second_closer,omitempty"`
	// Orphan ("stop" | "kill"): the root ends that way BEFORE a child "O" is created on it (so the child is
	// not registered and the root's Close does not wait for it); the child is closed after the root's
	// Close has returned and runs the whole protocol of its own
	Orphan string `json:"orphan_child_of_ended_root,omitempty"`
}

// (a list, not a map keyed by the ids: should two event ids ever coincide, both recorders are
// registered and the trace oracle sees one event reported under two names)
var events = []struct {
	id   int
	name string
}{
	{app.KillEvent, "Kill"}, {app.StopEvent, "Stop"}, {app.ErrorEvent, "Error"},
	{app.BeforeCommitEvent, "BeforeCommit"}, {app.CommitEvent, "Commit"}, {app.AfterCommitEvent, "AfterCommit"},
	{app.BeforeRollbackEvent, "BeforeRollback"}, {app.RollbackEvent, "Rollback"}, {app.AfterRollbackEvent, "AfterRollback"},
	{app.BeforeCloseEvent, "BeforeClose"}, {app.AfterCloseEvent, "AfterClose"},
}

type logEntry struct {
	step     int
	event    string
	scope    string // which scope the event is about ("" for kill/stop/error)
	listener string // who recorded: "R1","R2","C1"...
}

type obs struct {
	log              []logEntry
	seq              int
	doneStep         map[string][]int // scope -> steps at which its tasks called DoneTask
	closeErr         map[string]error
	closeRet         map[string]int
	errsAtEnd        map[string]int
	second           map[string]string // result of the second Close: "panic"/"returned"
	logAfter         int
	scopes           map[string]app.Scope
	isoDone          bool
	done             bool
	tasks            map[string][]string // accepted task bodies per scope
	injected         map[string]bool     // scopes that received an error (task or listener) before their wait could end
	concurrentSecond string              // outcome of a second Close issued while the first one was waiting
	orphanClose      string              // "nil" | "error" | "panic: ..." - Close of the child created on the ended root
}

var errTask = errors.New("task-error")
var errListener = errors.New("listener-error")

func (o *obs) tick() int { o.seq++; vsched.Note("obs"); return o.seq }

func build(sp Spec, o *obs) func() {
	return func() {
		*o = obs{doneStep: map[string][]int{}, closeErr: map[string]error{}, closeRet: map[string]int{}, errsAtEnd: map[string]int{}, second: map[string]string{}, scopes: map[string]app.Scope{}, injected: map[string]bool{}}
		has := func(n string) bool {
			for _, s := range sp.Scopes {
				if s == n {
					return true
				}
			}
			return false
		}
		root := scope.New(scope.Params{Name: "R"})
		o.scopes["R"] = root
		if has("C") {
			o.scopes["C"] = scope.NewChild(root, scope.ChildParams{Name: "C"})
		}
		if has("G") {
			o.scopes["G"] = scope.NewChild(o.scopes["C"], scope.ChildParams{Name: "G"})
		}
		if has("I") {
			o.scopes["I"] = scope.NewChild(root, scope.ChildParams{Name: "I", ContextScope: contextscope.NewIsolated(root.BaseContextScope())})
		}
		nameOf := func(data interface{}) string {
			for n, s := range o.scopes {
				if data == interface{}(s) {
					return n
				}
			}
			return ""
		}
		// recorders: two on the root (registration order), one on every other scope
		rec := func(owner app.Scope, lname string) {
			for _, ev := range events {
				id, en := ev.id, ev.name
				owner.On(id, func(data interface{}) error {
					sc := nameOf(data)
					o.log = append(o.log, logEntry{o.tick(), en, sc, lname})
					if sp.FailOn == sc+":"+en && lname == "R1" {
						return errListener
					}
					return nil
				})
			}
		}
		rec(root, "R1")
		rec(root, "R2")
		var orphan app.Scope
		if sp.Orphan != "" {
			if sp.Orphan == "kill" {
				root.Kill()
			} else {
				root.Stop()
			}
			orphan = scope.NewChild(root, scope.ChildParams{Name: "O"})
			o.scopes["O"] = orphan
			rec(orphan, "O1")
		}
		for _, n := range []string{"C", "G", "I"} {
			if s, ok := o.scopes[n]; ok {
				rec(s, n+"1")
			}
		}
		var wg vsched.WaitGroup
		started := map[string]bool{}
		// tasks
		// all tasks are registered before any of them runs (a task that ends the context first would
		// make the registration of the next one fail); only accepted tasks count for the oracle
		o.tasks = map[string][]string{}
		for _, n := range sp.Scopes {
			for _, body := range sp.Tasks[n] {
				if err := o.scopes[n].AddTasks(1); err == nil {
					o.tasks[n] = append(o.tasks[n], body)
				}
			}
		}
		for _, n := range sp.Scopes {
			n := n
			s := o.scopes[n]
			for _, body := range o.tasks[n] {
				body := body
				wg.Add(1)
				vsched.Spawn(func() {
					defer wg.Done()
					if sp.LateTask {
						for !started[n] { // wait until the closer of this scope is inside Close
							vsched.Yield()
						}
					}
					switch body {
					case "err":
						s.AppendError(errTask)
					case "kill":
						s.Kill()
					case "stop":
						s.Stop()
					case "stop-kill":
						// a graceful stop followed by a kill: the kill must still be recorded
						s.Stop()
						s.Kill()
					case "stop-err":
						s.Stop()
						s.AppendError(errTask)
					case "nil-err":
						// a variadic report whose first value is nil (AppendError(stepA(), stepB()) with only the
						// second step failing): the failure still counts
						s.AppendError(nil, errTask)
					case "nils":
						s.AppendError(nil, nil) // nothing failed: no error, the scope commits
					case "yield":
						vsched.Point("task-yield")
					case "latechild":
						// the task creates a child scope of its scope and closes it at once (a command scope) -
						// possibly at the very moment another task ends the scope
						scope.NewChild(s, scope.ChildParams{Name: "late"}).Close()
					}
					o.doneStep[n] = append(o.doneStep[n], o.tick())
					s.DoneTask()
				})
			}
		}
		// one closer per scope
		for _, n := range sp.Scopes {
			n := n
			s := o.scopes[n]
			wg.Add(1)
			vsched.Spawn(func() {
				defer wg.Done()
				if sp.LateTask {
					// signal "inside Close" from the before-close listener of this very scope
					s.On(app.BeforeCloseEvent, func(data interface{}) error {
						if data == interface{}(s) {
							started[n] = true
						}
						return nil
					})
				}
				err := s.Close()
				o.closeErr[n] = err
				o.closeRet[n] = o.tick()
				o.errsAtEnd[n] = len(s.Errors())
			})
		}
		if sp.SecondCloser {
			wg.Add(1)
			vsched.Spawn(func() {
				defer wg.Done()
				for !started["R"] {
					vsched.Yield()
				}
				func() {
					defer func() {
						if r := recover(); r != nil {
							o.concurrentSecond = "panic"
						}
					}()
					err := root.Close()
					o.concurrentSecond = fmt.Sprintf("returned %v", err)
				}()
			})
		}
		wg.Wait()
		if orphan != nil {
			func() {
				defer func() {
					if r := recover(); r != nil {
						o.orphanClose = fmt.Sprintf("panic: %v", r)
					}
				}()
				if err := orphan.Close(); err != nil {
					o.orphanClose = "error"
				} else {
					o.orphanClose = "nil"
				}
			}()
		}
		o.logAfter = len(o.log)
		// closing twice is refused loudly
		for _, n := range sp.Scopes {
			func() {
				defer func() {
					if r := recover(); r != nil {
						o.second[n] = "panic"
					}
				}()
				o.scopes[n].Close()
				o.second[n] = "returned"
			}()
		}
		o.done = true
	}
}

func children(sp Spec, n string) []string {
	var out []string
	for _, s := range sp.Scopes {
		if (n == "R" && (s == "C" || s == "I")) || (n == "C" && s == "G") {
			out = append(out, s)
		}
	}
	return out
}

// contextGroup: scopes sharing one context with n.
func sharesContext(a, b string) bool {
	grp := func(n string) string {
		if n == "I" {
			return "I"
		}
		return "shared"
	}
	return grp(a) == grp(b)
}

func judge(sp Spec, o *obs) func(x *explore.Exec) *explore.Verdict {
	return func(x *explore.Exec) *explore.Verdict {
		if !o.done {
			return &explore.Verdict{Kind: "not-finished", Clause: "Close returns once tasks are done and children closed", Detail: "the harness did not finish"}
		}
		if sp.Orphan != "" {
			var seq []string
			for _, e := range o.log[:o.logAfter] {
				if e.scope == "O" && e.listener == "O1" {
					seq = append(seq, e.event)
				}
			}
			want, wantClose := "BeforeClose BeforeCommit Commit AfterCommit AfterClose", "nil"
			if sp.Orphan == "kill" {
				want, wantClose = "BeforeClose BeforeRollback Rollback AfterRollback AfterClose", "error"
			}
			if got := strings.Join(seq, " "); got != want || o.orphanClose != wantClose {
				return &explore.Verdict{Kind: "event-sequence/orphan-child", Clause: "before-close, then exactly one of the commit or rollback triple, then after-close - each once, in that order; Close reports an error iff the scope holds one", Detail: fmt.Sprintf("a child created on a root that had already ended (%s) and closed after the root's Close: its own listener saw %q (want %q), its Close gave %s (want %s)", sp.Orphan, got, want, o.orphanClose, wantClose)}
			}
			return nil // (the other scopes' protocol is the other programs' subject: here the root was ended by the harness)
		}
		if sp.SecondCloser && o.concurrentSecond != "panic" {
			return &explore.Verdict{Kind: "concurrent-second-close-not-refused", Clause: "closing twice is refused loudly rather than repeating the events", Detail: fmt.Sprintf("a second Close issued by another goroutine while the first one was waiting for a task %s (expected: refused with a panic)\nlog: %s", o.concurrentSecond, renderLog(o.log))}
		}
		v := func(kind, clause, format string, a ...interface{}) *explore.Verdict {
			return &explore.Verdict{Kind: kind, Clause: clause, Detail: fmt.Sprintf(format, a...) + "\nevent log: " + renderLog(o.log)}
		}
		// which scopes have an error source that is guaranteed to precede the end of their wait
		mustFail := map[string]bool{}
		anyErr := map[string]bool{}
		lateErr := map[string]bool{} // a listener of this scope's own close events returns an error
		for _, n := range sp.Scopes {
			for _, b := range o.tasks[n] {
				if isErrBody(b) {
					for _, m := range sp.Scopes {
						// an error in n reaches every scope sharing its context; it precedes the wait end of
						// n itself and of n's ancestors (they wait for n's close)
						if sharesContext(n, m) {
							anyErr[m] = true
							if m == n || isAncestor(m, n) {
								mustFail[m] = true
							}
						}
					}
				}
			}
		}
		for _, n := range sp.Scopes {
			if n != "I" && anyErr[n] {
				// the watcher of an isolated child kills it when its parent ended with errors
				anyErr["I"] = true
			}
		}
		if sp.FailOn != "" {
			parts := strings.SplitN(sp.FailOn, ":", 2)
			fs, fe := parts[0], parts[1]
			for _, m := range sp.Scopes {
				if sharesContext(fs, m) {
					anyErr[m] = true
				}
			}
			lateErr[fs] = true
			if fe == "BeforeClose" {
				mustFail[fs] = true
				for _, m := range sp.Scopes {
					if isAncestor(m, fs) && sharesContext(m, fs) {
						mustFail[m] = true
					}
				}
			}
		}
		for _, n := range sp.Scopes {
			// the sequence of close events about n, as seen by the first root listener
			var seq []string
			stepOf := map[string]int{}
			for _, e := range o.log[:o.logAfter] {
				if e.scope == n && e.listener == "R1" {
					seq = append(seq, e.event)
					stepOf[e.event] = e.step
				}
			}
			commit := "BeforeClose BeforeCommit Commit AfterCommit AfterClose"
			rollback := "BeforeClose BeforeRollback Rollback AfterRollback AfterClose"
			got := strings.Join(seq, " ")
			// a failing listener stops the trigger for later listeners but not the protocol; R1 is the first listener
			if got != commit && got != rollback {
				return v("event-sequence/"+n, "before-close, then exactly one of the commit or rollback triple, then after-close - each once, in that order", "scope %s: events seen %q", n, got)
			}
			isCommit := got == commit
			if mustFail[n] && isCommit {
				return v("commit-despite-error/"+n, "the rollback triple fires when the scope has an error at that moment", "scope %s committed although an error was reported to its context before its wait could end", n)
			}
			if !anyErr[n] && !isCommit {
				return v("rollback-without-error/"+n, "the commit triple fires when the scope has no error", "scope %s rolled back although nothing ever reported an error to its context", n)
			}
			decide := stepOf["BeforeCommit"]
			if !isCommit {
				decide = stepOf["BeforeRollback"]
			}
			for _, d := range o.doneStep[n] {
				if d > decide {
					return v("did-not-wait-for-task/"+n, "waits until every task added to the scope is done", "scope %s decided at step %d but one of its tasks finished at step %d", n, decide, d)
				}
			}
			for _, ch := range children(sp, n) {
				chClose := 0
				for _, e := range o.log[:o.logAfter] {
					if e.scope == ch && e.event == "AfterClose" && e.listener == "R1" {
						chClose = e.step
					}
				}
				if chClose == 0 || chClose > decide {
					return v("did-not-wait-for-child/"+n, "waits until every child scope has itself been closed", "scope %s decided at step %d, child %s was closed at step %d", n, decide, ch, chClose)
				}
			}
			// the harness cannot read Errors() atomically with Close's return, so the result is only
			// judged where no error source can race with it
			if o.closeErr[n] != nil && o.errsAtEnd[n] == 0 {
				return v("close-result/"+n, "Close reports an error if and only if the scope holds one at the end", "scope %s: Close returned %v but the scope holds no error", n, o.closeErr[n])
			}
			if mustFail[n] && o.closeErr[n] == nil {
				return v("close-result/"+n, "Close reports an error if and only if the scope holds one at the end", "scope %s: Close returned nil although an error was reported to it before its wait could end", n)
			}
			if lateErr[n] && o.closeErr[n] == nil && fired(o.log[:o.logAfter], sp.FailOn) {
				return v("close-result/"+n, "Close reports an error if and only if the scope holds one at the end", "scope %s: a listener of its close events returned an error, but Close returned nil", n)
			}
			if !anyErr[n] && o.closeErr[n] != nil {
				return v("close-result/"+n, "Close reports an error if and only if the scope holds one at the end", "scope %s: Close returned %v although nothing ever failed", n, o.closeErr[n])
			}
			if o.second[n] != "panic" {
				return v("second-close-not-refused/"+n, "closing twice is refused loudly", "second Close of %s %s", n, o.second[n])
			}
			// listener order: for every close event about n, R1 before R2 before n's own listener
			for _, en := range seq {
				pos := map[string]int{}
				for i, e := range o.log[:o.logAfter] {
					if e.scope == n && e.event == en {
						if _, ok := pos[e.listener]; !ok {
							pos[e.listener] = i + 1
						}
					}
				}
				failing := sp.FailOn == n+":"+en
				if !failing {
					if pos["R2"] == 0 || pos["R1"] > pos["R2"] {
						return v("listener-order/"+n, "listeners run in registration order", "scope %s event %s: R1 at %d, R2 at %d", n, en, pos["R1"], pos["R2"])
					}
					if n != "R" && (pos[n+"1"] == 0 || pos[n+"1"] < pos["R2"]) {
						return v("listener-order/"+n, "the parent's listeners run before the child's", "scope %s event %s: root listener at %d, own listener at %d", n, en, pos["R2"], pos[n+"1"])
					}
				}
			}
		}
		if len(o.log) != o.logAfter {
			return v("second-close-fired-events", "closing twice does not repeat the events", "%d events fired by the refused second Close", len(o.log)-o.logAfter)
		}
		// shared vs isolated failure
		if _, ok := o.scopes["I"]; ok {
			iErr := false
			for _, b := range o.tasks["I"] {
				if isErrBody(b) {
					iErr = true
				}
			}
			othersErr := false
			for _, n := range sp.Scopes {
				if n == "I" {
					continue
				}
				for _, b := range o.tasks[n] {
					if isErrBody(b) {
						othersErr = true
					}
				}
			}
			if strings.HasPrefix(sp.FailOn, "I:") {
				iErr = true
			} else if sp.FailOn != "" {
				othersErr = true
			}
			if iErr && !othersErr && o.errsAtEnd["R"] > 0 {
				return v("isolated-child-failed-parent", "a child with an isolated context fails alone", "root holds %d errors although only the isolated child failed", o.errsAtEnd["R"])
			}
			rootEnds := false
			for _, b := range o.tasks["R"] {
				if b == "stop" || isErrBody(b) {
					rootEnds = true
				}
			}
			if rootEnds && !o.scopes["I"].IsDone() {
				return v("isolated-child-not-stopped", "an isolated child is still stopped when the parent stops", "the root was stopped/killed but the isolated child is not done at quiescence")
			}
		}
		if _, ok := o.scopes["C"]; ok {
			cErr := false
			for _, n := range []string{"C", "G"} {
				for _, b := range o.tasks[n] {
					if isErrBody(b) {
						cErr = true
					}
				}
			}
			if cErr && o.errsAtEnd["R"] == 0 {
				return v("shared-child-error-not-in-parent", "an error or kill in a child that shares the parent's context fails the parent too", "child failed but the root holds no error")
			}
		}
		return nil
	}
}

func fired(log []logEntry, failOn string) bool {
	for _, e := range log {
		if e.listener == "R1" && e.scope+":"+e.event == failOn {
			return true
		}
	}
	return false
}

func isAncestor(a, n string) bool {
	switch n {
	case "C", "I":
		return a == "R"
	case "G":
		return a == "R" || a == "C"
	}
	return false
}

func renderLog(l []logEntry) string {
	var s []string
	for _, e := range l {
		if e.listener == "R1" {
			s = append(s, fmt.Sprintf("%d:%s(%s)", e.step, e.event, e.scope))
		}
	}
	return strings.Join(s, " ")
}

// isErrBody: the task body leaves an error in its scope's context.
func isErrBody(b string) bool {
	return b == "err" || b == "kill" || b == "stop-kill" || b == "stop-err" || b == "nil-err"
}

func programs(thorough bool) []Spec {
	b := 1
	if thorough {
		b = 2
	}
	var ps []Spec
	trees := [][]string{{"R"}, {"R", "C"}, {"R", "I"}, {"R", "C", "G"}, {"R", "C", "I"}}
	bodies := []string{"none", "err", "kill", "stop", "yield", "nil-err", "nils"}
	for _, t := range trees {
		last := t[len(t)-1]
		b := b
		if len(t) >= 3 {
			b-- // three-scope trees: quick = free context switches at blocking points only, thorough = 1 preemption
		}
		// one task in the deepest scope, every body
		for _, body := range bodies {
			ps = append(ps, Spec{Scopes: t, Tasks: map[string][]string{last: {body}}, Bound: b})
		}
		// a task in the root as well
		for _, body := range []string{"err", "stop", "kill"} {
			ps = append(ps, Spec{Scopes: t, Tasks: map[string][]string{"R": {body}, last: {"yield"}}, Bound: b})
		}
		// two tasks in one scope
		ps = append(ps, Spec{Scopes: t, Tasks: map[string][]string{last: {"err", "yield"}}, Bound: b})
		// failure signalled on a context that has already been stopped gracefully (same task, another
		// task of the scope, a task of the root)
		ps = append(ps, Spec{Scopes: t, Tasks: map[string][]string{last: {"stop-kill"}}, Bound: b},
			Spec{Scopes: t, Tasks: map[string][]string{last: {"stop-err"}}, Bound: b},
			Spec{Scopes: t, Tasks: map[string][]string{last: {"stop", "kill"}}, Bound: b})
		if len(t) > 1 {
			ps = append(ps, Spec{Scopes: t, Tasks: map[string][]string{"R": {"stop"}, last: {"stop-kill"}}, Bound: b})
		}
		// a short-lived child created by a task while another task ends the scope, next to the registered
		// children: the scope's Close still waits for every registered child
		if len(t) == 2 && last == "C" {
			for _, end := range []string{"stop", "kill", "err"} {
				ps = append(ps, Spec{Scopes: t, Tasks: map[string][]string{"R": {end, "latechild"}}, Bound: b})
			}
		}
		// failing listeners
		for _, ev := range []string{"BeforeClose", "BeforeCommit", "Commit", "Rollback", "AfterClose"} {
			tasks := map[string][]string{last: {"yield"}}
			if ev == "Rollback" {
				tasks = map[string][]string{last: {"err"}}
			}
			ps = append(ps, Spec{Scopes: t, Tasks: tasks, FailOn: last + ":" + ev, Bound: b})
		}
		// a registered task that reports its failure while the scope is already closing
		for _, body := range []string{"err", "kill", "stop"} {
			ps = append(ps, Spec{Scopes: t, Tasks: map[string][]string{last: {body}}, LateTask: true, Bound: b})
		}
		// ... and a second goroutine that calls Close on the root meanwhile
		if len(t) <= 2 && last != "I" {
			for _, body := range []string{"err", "yield"} {
				ps = append(ps, Spec{Scopes: t, Tasks: map[string][]string{"R": {body}}, LateTask: true, SecondCloser: true, Bound: b})
			}
		}
	}
	// a child created on a root that has already ended, closed after the root
	for _, end := range []string{"stop", "kill"} {
		ps = append(ps, Spec{Scopes: []string{"R"}, Tasks: map[string][]string{}, Orphan: end, Bound: b},
			Spec{Scopes: []string{"R", "C"}, Tasks: map[string][]string{"C": {"yield"}}, Orphan: end, Bound: b})
	}
	return ps
}

var focus = []string{"app/scope", "checks/c11"}

func mkProgram(sp Spec) *explore.Program {
	o := &obs{}
	name := strings.Join(sp.Scopes, "") + ":" + fmt.Sprint(sp.Tasks) + ":" + sp.FailOn
	if sp.LateTask {
		name += ":late"
	}
	if sp.SecondCloser {
		name += ":second-closer"
	}
	if sp.Orphan != "" {
		name += ":orphan-after-" + sp.Orphan
	}
	return &explore.Program{Prop: "C11", Name: name, Spec: sp,
		Opt:  explore.Options{Bound: sp.Bound, Focus: focus, MaxSteps: 8000, HBR: true, NoShard: true},
		Body: build(sp, o), Judge: judge(sp, o),
		Outcome: func() string { return renderLog(o.log) },
	}
}

func run(c *fw.Ctx) {
	ps := programs(c.Thorough())
	c.R.Info["programs_total"] = len(ps)
	c.R.Info["focus"] = focus
	for i, sp := range ps {
		if !c.Mine(i) {
			continue // whole programs are distributed over the shards (the happens-before cache is per program)
		}
		if c.Expired() {
			c.NotExhaustive("deadline")
			break
		}
		if !explore.RunProgram(c, mkProgram(sp)) && c.R.InfraError != "" {
			return
		}
		if i%19 == 2 {
			c.Sample(map[string]interface{}{"program": sp})
		}
	}
}

func replay(wj json.RawMessage) (*fw.Violation, error) {
	var w struct {
		Spec    Spec  `json:"spec"`
		Choices []int `json:"choices"`
	}
	if err := json.Unmarshal(wj, &w); err != nil {
		return nil, err
	}
	return explore.ReplayProgram(mkProgram(w.Spec), w.Choices)
}

func init() {
	fw.Register(&fw.Check{ID: "C11", Level: "model_checking",
		Rule: "programs = scope tree {root; +shared child; +isolated child; +child+grandchild; +shared+isolated} x task bodies {none, AppendError, Kill, Stop, yield, Stop-then-Kill, Stop-then-AppendError, create-and-close a child scope while another task ends the scope} in the deepest scope / the root / two per scope x a listener returning an error on {BeforeClose, BeforeCommit, Commit, Rollback, AfterClose} x tasks that report their failure only after the closer is inside Close (4 of these programs with a second goroutine calling Close on the root meanwhile: refused loudly); 4 programs in which a child is created on a root that has already ended (stop / kill) and is closed after the root's Close has returned: it runs the whole protocol of its own; one closer thread per scope, one thread per task, recorders on all 11 events on the root (twice) and on every child; every schedule with <= bound preemptions; oracle on the global-step event log as described in DESIGN.md 3/C11. states = distinct schedule traces",
		Run:  run, Replay: replay,
		Assumptions: []string{"commit/rollback is only judged when the error source is ordered before (or there is no error source at all for) the scope's wait end", "preemption bounds as reported; 1-2 tasks per scope, depth <= 3"}})
}
