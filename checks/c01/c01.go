// Package c01 decides C01: the in-memory filespace equals a plain tree-of-named-nodes model
// on every history. Engine: explicit-state BFS over canonical model trees; every
// (state, operation) transition is executed on a fresh real memfs by replaying a history that
// reaches the state; plus retained-observation probes for aliasing.
package c01

import (
	"encoding/json"
	"fmt"
	"os"
	"sort"
	"strings"

	"github.com/goatcms/goatcore/filesystem"
	"github.com/goatcms/goatcore/filesystem/filespace/memfs"

	"verif/fsx"
	"verif/fw"
	"verif/models/treefs"
)

type witness struct {
	History []treefs.Op `json:"history"`
	Op      *treefs.Op  `json:"op,omitempty"`
	Probe   *probe      `json:"probe,omitempty"`
}

type probe struct {
	Read treefs.Op `json:"read"`
	Mut  treefs.Op `json:"mutation"`
}

func mk() (filesystem.Filespace, func()) {
	fs, err := memfs.NewFilespace()
	if err != nil {
		panic(err)
	}
	return fs, nil
}

// checkStep evaluates one transition; returns nil when the implementation agrees with the model.
func checkStep(t *treefs.Node, hist []treefs.Op, op treefs.Op) (*fsx.Mismatch, fsx.StepOutcome) {
	o := fsx.Step(mk, hist, op, false)
	if o.Panic != "" {
		return &fsx.Mismatch{Clause: "no operation panics", Kind: "panic", Detail: o.Panic}, o
	}
	if o.Deadlock {
		return &fsx.Mismatch{Clause: "operations return", Kind: "blocks-forever", Detail: fmt.Sprintf("the operation (or the following tree walk) never returned; blocked: %v", o.Blocked)}, o
	}
	e := treefs.Apply(t, op)
	return fsx.Compare(t, op, e, o.R, o.After, o.Problems), o
}

func sig(m *fsx.Mismatch, op treefs.Op, tag string) string {
	return fmt.Sprintf("C01/%s/%s/%s", m.Kind, op.Kind, tag)
}

// probes: hold a read result across a mutation and require it unchanged.
func runProbe(hist []treefs.Op, rd, mut treefs.Op) (string, bool) {
	bad := ""
	res := fsx.RunSeq(func() {
		fs, _ := mk()
		for _, h := range hist {
			fsx.Exec(fs, h)
		}
		defer func() {
			if p := recover(); p != nil {
				bad = fmt.Sprintf("panic while re-inspecting the retained result: %v", p)
			}
		}()
		switch rd.Kind {
		case "ReadFile":
			d, err := fs.ReadFile(rd.P)
			if err != nil {
				return
			}
			before := string(d)
			fsx.Exec(fs, mut)
			if string(d) != before {
				bad = fmt.Sprintf("ReadFile(%q) returned %q; after %s the same slice reads %q", rd.P, before, fsx.OpString(mut), string(d))
			}
		case "ReadDir":
			l, err := fs.ReadDir(rd.P)
			if err != nil {
				return
			}
			snap := listing(l)
			fsx.Exec(fs, mut)
			if now := listing(l); now != snap {
				bad = fmt.Sprintf("ReadDir(%q) returned [%s]; after %s the same slice lists [%s]", rd.P, snap, fsx.OpString(mut), now)
			}
		case "Lstat":
			fi, err := fs.Lstat(rd.P)
			if err != nil || fi == nil {
				return
			}
			n, d := fi.Name(), fi.IsDir()
			fsx.Exec(fs, mut)
			if fi.Name() != n || fi.IsDir() != d {
				bad = fmt.Sprintf("Lstat(%q) said name=%q dir=%v; after %s it says name=%q dir=%v", rd.P, n, d, fsx.OpString(mut), fi.Name(), fi.IsDir())
			}
		}
	})
	if bad == "" && (res.Deadlock || res.Horizon) {
		bad = fmt.Sprintf("blocked forever: %v", res.Blocked)
	}
	if bad == "" && len(res.Panics) > 0 {
		bad = "panic: " + res.Panics[0].Value
	}
	return bad, bad != ""
}

func listing(l []os.FileInfo) string {
	var s []string
	for _, n := range l {
		if n == nil {
			s = append(s, "<nil>")
			continue
		}
		if n.IsDir() {
			s = append(s, n.Name()+"/")
		} else {
			s = append(s, n.Name())
		}
	}
	sort.Strings(s)
	return strings.Join(s, " ")
}

func params(thorough bool) (contents []string, nspell int, views [][]string, bufs []int, maxHists int) {
	if thorough {
		return []string{"", "x", "yy"}, len(fsx.Spellings), [][]string{nil, {"a"}, {"a", "b"}, {"./a/"}}, []int{1, 2, 64}, 3
	}
	return []string{"x", "yy"}, 5, [][]string{nil, {"a"}, {"a", "b"}}, []int{1, 64}, 1
}

func run(c *fw.Ctx) {
	fsx.CheckSizes = true
	contents, nspell, views, bufs, maxHists := params(c.Thorough())
	states := fsx.Reach(fsx.Mutators(contents), 2, maxHists)
	alphabet := fsx.Alphabet(contents, nspell, views, true, bufs)
	alphabet = append(alphabet, fsx.EscapingViewOps(contents)...)
	reduced := fsx.Alphabet(contents, 1, [][]string{nil}, false, []int{64})
	c.R.Info["model_states"] = len(states)
	c.R.Info["alphabet"] = len(alphabet)
	c.R.Info["contents"] = contents
	c.R.Info["spellings"] = nspell
	c.R.Info["views"] = views
	report := func(m *fsx.Mismatch, hist []treefs.Op, op treefs.Op, tag string) {
		s := sig(m, op, tag)
		if c.Violated(s) {
			c.Violate(&fw.Violation{Signature: s})
			return
		}
		// confirm: deterministic code, re-run 2 more times
		for i := 0; i < 2; i++ {
			t := modelAfter(hist)
			m2, _ := checkStep(t, hist, op)
			if m2 == nil || m2.Kind != m.Kind {
				c.Count("unstable_candidates", 1)
				return
			}
		}
		c.Violate(&fw.Violation{Property: "C01", Clause: m.Clause, Signature: s,
			Detail:  fmt.Sprintf("history %s\nthen %s  [%s]\n%s", fsx.HistString(hist), fsx.OpString(op), tag, m.Detail),
			Witness: fw.JSON(witness{History: hist, Op: &op})})
	}
	for si, s := range states {
		if !c.Mine(si) {
			continue
		}
		if c.Expired() {
			c.NotExhaustive(fmt.Sprintf("deadline reached at model state %d of %d", si, len(states)))
			break
		}
		c.R.States++
		// sanity: the shortest history really reaches the model state on the implementation
		pre := fsx.Step(mk, s.Hists[0], treefs.Op{Kind: "IsExist", P: "a"}, true)
		if fsx.FlatKey(pre.Pre) != fsx.FlatKey(s.Tree.Flat()) || len(pre.PreProbs) > 0 {
			c.Count("states_not_reached_by_impl", 1)
			continue
		}
		for hi, h := range s.Hists {
			ops := alphabet
			if hi > 0 {
				ops = reduced
			}
			for _, g := range ops {
				m, o := checkStep(s.Tree, h, g.Op)
				c.R.Transitions++
				c.R.Evaluations++
				c.Count("impl_ops_executed", int64(len(h)+1))
				_ = o
				if m != nil {
					c.Count("violating_transitions", 1)
					report(m, h, g.Op, g.Tag)
				}
			}
		}
		// retained-observation probes
		flat := s.Tree.Flat()
		var reads []treefs.Op
		reads = append(reads, treefs.Op{Kind: "ReadDir", P: "."}, treefs.Op{Kind: "Lstat", P: "."})
		var paths []string
		for p := range flat {
			paths = append(paths, p)
		}
		sort.Strings(paths)
		for _, p := range paths {
			if flat[p] == "dir" {
				reads = append(reads, treefs.Op{Kind: "ReadDir", P: p})
			} else {
				reads = append(reads, treefs.Op{Kind: "ReadFile", P: p})
			}
			reads = append(reads, treefs.Op{Kind: "Lstat", P: p})
		}
		muts := fsx.Mutators(contents)
		for _, rd := range reads {
			for _, mu := range muts {
				c.Count("probes", 1)
				c.R.Evaluations++
				if bad, isBad := runProbe(s.Hists[0], rd, mu); isBad {
					sg := fmt.Sprintf("C01/retained-%s-changed-by/%s", rd.Kind, mu.Kind)
					if !c.Violated(sg) {
						c.Violate(&fw.Violation{Property: "C01", Clause: "byte slices and listings handed out are snapshots", Signature: sg,
							Detail:  fmt.Sprintf("history %s\n%s", fsx.HistString(s.Hists[0]), bad),
							Witness: fw.JSON(witness{History: s.Hists[0], Probe: &probe{rd, mu}})})
					} else {
						c.Violate(&fw.Violation{Signature: sg})
					}
				}
			}
		}
		if si < 40 && si%13 == 5 {
			c.Sample(map[string]interface{}{"state": strings.Split(s.Key, "\n"), "history": fsx.HistString(s.Hists[0]), "ops_checked_from_here": len(alphabet)})
		}
	}
	runEscapeAll(c)
	runLiveAll(c)
	c.R.Traces = c.R.Transitions
	c.R.Distinct = c.R.Transitions
}

func modelAfter(hist []treefs.Op) *treefs.Node {
	t := treefs.NewDir()
	for _, h := range hist {
		e := treefs.Apply(t, h)
		if e.After != nil && e.Class == treefs.MustOK {
			t = e.After
		}
	}
	return t
}

func replay(w json.RawMessage) (*fw.Violation, error) {
	fsx.CheckSizes = true
	var ew struct {
		Init []treefs.Op `json:"escape_consistency_init"`
		Op   *treefs.Op  `json:"op"`
	}
	if err := json.Unmarshal(w, &ew); err == nil && ew.Op != nil && strings.Contains(string(w), "escape_consistency_init") {
		if bad := runEscape(escWit{ew.Init, *ew.Op}); bad != "" {
			return &fw.Violation{Property: "C01", Clause: "queries agree with the tree", Signature: "C01/escaping-spelling-inconsistent/" + ew.Op.Kind + "/replay", Detail: bad}, nil
		}
		return nil, nil
	}
	var lw struct {
		Live *liveWit `json:"live"`
	}
	if err := json.Unmarshal(w, &lw); err == nil && lw.Live != nil {
		if m, step := runLive(lw.Live.Init, lw.Live.Hist); m != nil {
			return &fw.Violation{Property: "C01", Clause: m.Clause, Signature: "C01/live/" + m.Kind + "/replay", Detail: fmt.Sprintf("step %d: %s", step, m.Detail)}, nil
		}
		return nil, nil
	}
	var wit witness
	if err := json.Unmarshal(w, &wit); err != nil {
		return nil, err
	}
	if wit.Probe != nil {
		if bad, isBad := runProbe(wit.History, wit.Probe.Read, wit.Probe.Mut); isBad {
			return &fw.Violation{Property: "C01", Clause: "snapshots", Signature: fmt.Sprintf("C01/retained-%s-changed-by/%s", wit.Probe.Read.Kind, wit.Probe.Mut.Kind), Detail: bad}, nil
		}
		return nil, nil
	}
	if wit.Op == nil {
		return nil, fmt.Errorf("witness without op")
	}
	t := modelAfter(wit.History)
	m, _ := checkStep(t, wit.History, *wit.Op)
	if m == nil {
		return nil, nil
	}
	return &fw.Violation{Property: "C01", Clause: m.Clause, Signature: sig(m, *wit.Op, "replay"), Detail: m.Detail}, nil
}

func init() {
	fw.Register(&fw.Check{ID: "C01", Level: "model_checking",
		Rule: "states = every tree of depth<=2 over names {a,b} and the content pool, reached on a fresh real memfs by replaying a shortest history (thorough: up to 3 histories ending in different op kinds); from every state every op of the alphabet (16 Filespace methods x path spellings x contents/chunkings/buffer sizes x root/child/grandchild views, incl. escaping paths) is executed and compared with the tree model (result class, returned data, full tree walk, structural sanity); plus retained-result probes (read, then every mutator, then re-inspect); plus escaping spellings on the root filespace (7 spellings x 7 mutations x 2 initial trees): refused or clamped is left open, but a mutation that reports success must be visible to the queries under the same spelling; plus every history of 4 (quick) / 5 (thorough) operations from a 24-entry alphabet issued through a root filespace, a child view and a view of that view that are obtained ONCE and stay alive (the view's base being removed, re-created or replaced by a file through another handle), judged step by step against the model. distinct = (state, op) transitions",
		Run: run, Replay: replay,
		Assumptions: []string{"names {a,b}, depth<=2 states (ops may reach depth 3, those successors are checked but not expanded)", "listing order, sizes and times are not part of the model", "lexical path normalisation is the intended meaning of '..'"}})
}
