package c01

import (
	"fmt"

	"verif/fsx"
	"verif/fw"
	"verif/models/treefs"
)

// Escaping spellings on the ROOT filespace ("../x", "a/../../x"): whether such a path is refused or
// clamped to the root is left open - but it is a function of the spelling, not of the operation.
// "Queries agree with the tree": a mutation that reports SUCCESS for a spelling S has created a node
// that the queries see under the very same spelling S.

type escWit struct {
	Init []treefs.Op `json:"escape_consistency_init"`
	Op   treefs.Op   `json:"op"`
}

func escapeCases() []escWit {
	inits := [][]treefs.Op{nil, {{Kind: "WriteFile", P: "keep/f", Data: "x"}, {Kind: "MkdirAll", P: "src/sub"}, {Kind: "WriteFile", P: "src/sub/g", Data: "yy"}}}
	var out []escWit
	for _, in := range inits {
		for _, s := range []string{"../x", "../d/y", "keep/../../z", "./../w", "..//v", "a/../../../u", "../x/"} {
			out = append(out,
				escWit{Init: in, Op: treefs.Op{Kind: "WriteFile", P: s, Data: "D"}},
				escWit{Init: in, Op: treefs.Op{Kind: "Writer", P: s, Chunks: []string{"D"}}},
				escWit{Init: in, Op: treefs.Op{Kind: "MkdirAll", P: s}},
				escWit{Init: in, Op: treefs.Op{Kind: "CopyFile", P: "keep/f", Q: s}},
				escWit{Init: in, Op: treefs.Op{Kind: "CopyDirectory", P: "src", Q: s}},
				escWit{Init: in, Op: treefs.Op{Kind: "Copy", P: "src", Q: s}},
				escWit{Init: in, Op: treefs.Op{Kind: "Copy", P: "keep/f", Q: s}})
		}
	}
	return out
}

func runEscape(w escWit) (bad string) {
	res := fsx.RunSeq(func() {
		fs, _ := mk()
		for _, h := range w.Init {
			fsx.Exec(fs, h)
		}
		r := fsx.Exec(fs, w.Op)
		if r.Panic != "" {
			bad = "panic: " + r.Panic
			return
		}
		if r.Err != "" {
			return // refused: the frame condition of the main sweep covers this case
		}
		dest := w.Op.P
		if w.Op.Q != "" {
			dest = w.Op.Q
		}
		ex := fsx.Exec(fs, treefs.Op{Kind: "IsExist", P: dest})
		if !ex.Bool {
			bad = fmt.Sprintf("%s reported success, but IsExist(%q) - the same spelling - answers false (the spelling resolves for the mutation and not for the query)", fsx.OpString(w.Op), dest)
			return
		}
		switch w.Op.Kind {
		case "WriteFile", "Writer":
			rd := fsx.Exec(fs, treefs.Op{Kind: "ReadFile", P: dest})
			if rd.Err != "" || rd.Data != "D" {
				bad = fmt.Sprintf("%s reported success, but ReadFile(%q) gives err=%q data=%q", fsx.OpString(w.Op), dest, rd.Err, rd.Data)
			}
		case "MkdirAll", "CopyDirectory":
			if d := fsx.Exec(fs, treefs.Op{Kind: "IsDir", P: dest}); !d.Bool {
				bad = fmt.Sprintf("%s reported success, but IsDir(%q) answers false", fsx.OpString(w.Op), dest)
			}
		}
	})
	if bad == "" && (res.Deadlock || res.Horizon) {
		bad = fmt.Sprintf("blocked forever: %v", res.Blocked)
	}
	if bad == "" && len(res.Panics) > 0 {
		bad = "panic: " + res.Panics[0].Value
	}
	return bad
}

func runEscapeAll(c *fw.Ctx) {
	if !c.Mine(8000001) {
		return
	}
	for _, w := range escapeCases() {
		c.R.Evaluations++
		c.Count("escape_consistency_cases", 1)
		if bad := runEscape(w); bad != "" {
			sg := "C01/escaping-spelling-inconsistent/" + w.Op.Kind
			if c.Violated(sg) {
				c.Violate(&fw.Violation{Signature: sg})
				continue
			}
			c.Violate(&fw.Violation{Property: "C01", Clause: "queries agree with the tree (a path spelling resolves the same way for every operation)", Signature: sg, Detail: bad, Witness: fw.JSON(w)})
		}
	}
}
