package c01

import (
	"fmt"
	"strings"

	"github.com/goatcms/goatcore/filesystem"

	"verif/fsx"
	"verif/fw"
	"verif/models/treefs"
)

// Live histories: the root filespace, a child view Filespace("a") and a view of that view
// Filespace("a").Filespace("b") are obtained ONCE and stay alive while operations are issued
// through all three. A view is a window onto a path of one tree: whatever happens to that path
// through another handle (removed, re-created, replaced), the view keeps showing the tree.

type liveOp struct {
	Via string    `json:"via"` // root | a | ab
	Op  treefs.Op `json:"op"`
}

type liveWit struct {
	Init []treefs.Op `json:"init"`
	Hist []liveOp    `json:"history"`
}

func liveAlphabet() []liveOp {
	var a []liveOp
	add := func(via string, ops ...treefs.Op) {
		for _, o := range ops {
			a = append(a, liveOp{via, o})
		}
	}
	add("root",
		treefs.Op{Kind: "RemoveAll", P: "a"}, treefs.Op{Kind: "MkdirAll", P: "a"}, treefs.Op{Kind: "MkdirAll", P: "a/b"},
		treefs.Op{Kind: "RemoveAll", P: "a/b"}, treefs.Op{Kind: "WriteFile", P: "a/f", Data: "r"}, treefs.Op{Kind: "WriteFile", P: "a/b/f", Data: "rr"},
		treefs.Op{Kind: "Remove", P: "a/f"}, treefs.Op{Kind: "WriteFile", P: "a", Data: "file-now"}, treefs.Op{Kind: "Remove", P: "a"},
		treefs.Op{Kind: "CopyDirectory", P: "a", Q: "b"})
	add("a",
		treefs.Op{Kind: "WriteFile", P: "f", Data: "v"}, treefs.Op{Kind: "WriteFile", P: "b/f", Data: "vv"}, treefs.Op{Kind: "MkdirAll", P: "b"},
		treefs.Op{Kind: "RemoveAll", P: "b"}, treefs.Op{Kind: "ReadDir", P: "."}, treefs.Op{Kind: "ReadFile", P: "f"}, treefs.Op{Kind: "IsExist", P: "b"},
		treefs.Op{Kind: "Writer", P: "f", Chunks: []string{"w"}}, treefs.Op{Kind: "Lstat", P: "f"})
	add("ab",
		treefs.Op{Kind: "WriteFile", P: "f", Data: "z"}, treefs.Op{Kind: "ReadDir", P: "."}, treefs.Op{Kind: "ReadFile", P: "f"}, treefs.Op{Kind: "IsFile", P: "f"}, treefs.Op{Kind: "Remove", P: "f"})
	return a
}

var liveInits = [][]treefs.Op{
	{{Kind: "MkdirAll", P: "a"}},
	{{Kind: "WriteFile", P: "a/b/f", Data: "0"}, {Kind: "WriteFile", P: "a/f", Data: "1"}},
}

func liveChain(via string) []string {
	switch via {
	case "a":
		return []string{"a"}
	case "ab":
		return []string{"a", "b"}
	}
	return nil
}

// runLive executes one history on retained objects and judges every step against the model.
func runLive(init []treefs.Op, hist []liveOp) (m *fsx.Mismatch, step int) {
	res := fsx.RunSeq(func() {
		root, _ := mk()
		t := treefs.NewDir()
		for _, o := range init {
			fsx.Exec(root, o)
			if e := treefs.Apply(t, o); e.After != nil {
				t = e.After
			}
		}
		va, err := root.Filespace("a")
		if err != nil || va == nil {
			return
		}
		vab, err := va.Filespace("b")
		if err != nil || vab == nil {
			return
		}
		objs := map[string]filesystem.Filespace{"root": root, "a": va, "ab": vab}
		for i, lo := range hist {
			mop := lo.Op
			mop.View = liveChain(lo.Via)
			e := treefs.Apply(t, mop)
			r := fsx.Exec(objs[lo.Via], lo.Op)
			after, probs := fsx.Walk(root)
			if mm := fsx.Compare(t, mop, e, r, after, probs); mm != nil {
				m, step = mm, i+1
				return
			}
			switch {
			case e.Class == treefs.MustOK && e.After != nil:
				t = e.After
			case e.Class == treefs.MustOK || e.Class == treefs.MustFail:
			default:
				// either / unspecified outcome: continue only while the implementation still is in a
				// state the model knows (the unchanged tree or the "success" tree)
				switch fsx.FlatKey(after) {
				case fsx.FlatKey(t.Flat()):
				default:
					if e.After != nil && fsx.FlatKey(after) == fsx.FlatKey(e.After.Flat()) {
						t = e.After
					} else {
						return
					}
				}
			}
		}
	})
	if m == nil && len(res.Panics) > 0 {
		return &fsx.Mismatch{Clause: "no operation panics", Kind: "panic", Detail: res.Panics[0].Value + "\n" + res.Panics[0].Stack}, 0
	}
	if m == nil && (res.Deadlock || res.Horizon) {
		return &fsx.Mismatch{Clause: "operations return", Kind: "blocks-forever", Detail: fmt.Sprint(res.Blocked)}, 0
	}
	return
}

func liveString(h []liveOp) string {
	var l []string
	for _, lo := range h {
		l = append(l, lo.Via+"."+fsx.OpString(lo.Op))
	}
	return strings.Join(l, "; ")
}

func runLiveAll(c *fw.Ctx) {
	alpha := liveAlphabet()
	depth := 4
	if c.Thorough() {
		depth = 5
	}
	c.R.Info["live_history_alphabet"] = len(alpha)
	c.R.Info["live_history_depth"] = depth
	item := 0
	for _, init := range liveInits {
		var rec func(cur []liveOp)
		rec = func(cur []liveOp) {
			if len(cur) == depth {
				item++
				if !c.Mine(item) || c.Expired() {
					return
				}
				c.R.Evaluations++
				c.R.Transitions += int64(depth)
				c.Count("live_histories", 1)
				m, step := runLive(init, cur)
				if m == nil {
					return
				}
				last := cur[len(cur)-1]
				if step > 0 {
					last = cur[step-1]
				}
				sg := fmt.Sprintf("C01/live/%s/%s-via-%s", m.Kind, last.Op.Kind, last.Via)
				if c.Violated(sg) {
					c.Violate(&fw.Violation{Signature: sg})
					return
				}
				c.Violate(&fw.Violation{Property: "C01", Clause: m.Clause, Signature: sg,
					Detail:  fmt.Sprintf("initial ops %s; root, view Filespace(\"a\") and its view Filespace(\"b\") obtained once\nhistory %s\nstep %d: %s", fsx.HistString(init), liveString(cur), step, m.Detail),
					Witness: fw.JSON(map[string]interface{}{"live": liveWit{init, cur}})})
				return
			}
			for _, lo := range alpha {
				rec(append(append([]liveOp{}, cur...), lo))
			}
		}
		rec(nil)
	}
	if c.Expired() {
		c.NotExhaustive("deadline in live histories")
	}
}
