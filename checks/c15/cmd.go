package c15

import (
	"fmt"
	"strings"

	"github.com/goatcms/goatcore/zzverif/vsched"

	"verif/checks/pipx"
	"verif/explore"
	"verif/fw"
)

// Command-level programs: the lock map is built by the pip:run command from its --rlock / --wlock
// lists (pipcommands/pipc/helpers.go, anchored in C15). Each task is started by its own terminal
// script from its own goroutine, so the tasks really overlap.

// CmdTask is one pip:run invocation.
type CmdTask struct {
	Name  string `json:"name"`
	RLock string `json:"rlock,omitempty"`
	WLock string `json:"wlock,omitempty"`
}

// CmdSpec is one program.
type CmdSpec struct {
	Tasks []CmdTask `json:"tasks"`
	Bound int       `json:"bound"`
}

func (s CmdSpec) name() string {
	var l []string
	for _, t := range s.Tasks {
		l = append(l, fmt.Sprintf("%s[r=%s;w=%s]", t.Name, t.RLock, t.WLock))
	}
	return "cmd: " + strings.Join(l, " ")
}

// holds: the access a task asked for - write wins when a resource is on both lists.
func (t CmdTask) holds() string {
	mode := map[string]bool{} // resource -> write?
	var order []string
	add := func(list string, write bool) {
		for _, r := range strings.Split(list, ",") {
			r = strings.TrimSpace(r)
			if r == "" {
				continue
			}
			if _, ok := mode[r]; !ok {
				order = append(order, r)
			}
			mode[r] = mode[r] || write
		}
	}
	add(t.RLock, false)
	add(t.WLock, true)
	var hs []string
	for _, r := range order {
		if mode[r] {
			hs = append(hs, r)
		} else {
			hs = append(hs, "r:"+r)
		}
	}
	return strings.Join(hs, ",")
}

type cmdObs struct {
	w     *pipx.World
	errs  []string
	done  bool
	infra string
}

func cmdBuild(sp CmdSpec, o *cmdObs) func() {
	return func() {
		*o = cmdObs{}
		w, err := pipx.New()
		if err != nil {
			o.infra = err.Error()
			return
		}
		o.w = w
		var wg vsched.WaitGroup
		for _, t := range sp.Tasks {
			t := t
			line := "pip:run --name=" + t.Name
			if t.RLock != "" {
				line += ` --rlock="` + t.RLock + `"`
			}
			if t.WLock != "" {
				line += ` --wlock="` + t.WLock + `"`
			}
			line += ` --body="probe --id=` + t.Name + `.c1 --hold=` + t.holds() + ` --gosched=1"` + "\n"
			wg.Add(1)
			vsched.Spawn(func() {
				defer wg.Done()
				if err := w.RunScript(line, nil); err != nil {
					o.errs = append(o.errs, t.Name+": "+err.Error())
				}
			})
		}
		wg.Wait()
		if tm, err := w.Tasks.FromScope(w.Root); err == nil {
			tm.Wait()
		}
		w.Root.Wait()
		o.done = true
	}
}

func cmdJudge(sp CmdSpec, o *cmdObs) func(x *explore.Exec) *explore.Verdict {
	return func(x *explore.Exec) *explore.Verdict {
		if o.infra != "" {
			return &explore.Verdict{Kind: "harness-error", Detail: o.infra}
		}
		if !o.done {
			return &explore.Verdict{Kind: "not-finished", Clause: "acquisition never deadlocks", Detail: "the tasks never finished"}
		}
		if len(o.errs) > 0 {
			return &explore.Verdict{Kind: "cmd/pip-run-failed", Clause: "holders with any lock maps all get their turn", Detail: strings.Join(o.errs, "; ")}
		}
		if o.w.ExclViolation != "" {
			return &explore.Verdict{Kind: "cmd/exclusion-violated", Clause: "two holders whose lock maps name the same resource never hold it at the same time unless both asked for read access",
				Detail: o.w.ExclViolation + "\nevents: " + o.w.Render()}
		}
		for _, t := range sp.Tasks {
			if len(o.w.EventsOf(t.Name+".")) != 2 {
				return &explore.Verdict{Kind: "cmd/task-did-not-run", Clause: "holders with any lock maps all get their turn", Detail: "task " + t.Name + " did not execute its body; events: " + o.w.Render()}
			}
		}
		return nil
	}
}

func cmdPrograms(thorough bool) []CmdSpec {
	// (free context switches only: with one preemption a single program needs > 5*10^5 executions)
	ps := []CmdSpec{
		{Tasks: []CmdTask{{"a", "store", "store"}, {"b", "store", ""}}, Bound: 0},
		{Tasks: []CmdTask{{"a", "store", "store"}, {"b", "store", "store"}}, Bound: 0},
		{Tasks: []CmdTask{{"a", "x,store", "store,y"}, {"b", "store,y", ""}}, Bound: 0},
	}
	if thorough {
		// controls: plain writer vs reader, two readers (free switches only: the readers really overlap)
		ps = append(ps, CmdSpec{Tasks: []CmdTask{{"a", "", "store"}, {"b", "store", ""}}, Bound: 0},
			CmdSpec{Tasks: []CmdTask{{"a", "store", ""}, {"b", "store", ""}}, Bound: 0})
	}
	return ps
}

var cmdFocus = []string{"pipcommands/pipc", "pipservices/runner", "pipservices/tasks", "app/scope", "commservices/mutex", "terminal/termexec", "checks/c15", "checks/pipx"}

func mkCmd(sp CmdSpec) *explore.Program {
	o := &cmdObs{}
	return &explore.Program{Prop: "C15", Name: sp.name(), Spec: sp,
		Opt:  explore.Options{Bound: sp.Bound, Focus: cmdFocus, MaxSteps: 30000, HBR: true, HBRAuxNeutral: true, NoShard: true, SelectCost: -1},
		Body: cmdBuild(sp, o), Judge: cmdJudge(sp, o),
		Outcome: func() string {
			if o.w == nil {
				return ""
			}
			return o.w.Render()
		},
	}
}

func runCmd(c *fw.Ctx) {
	ps := cmdPrograms(c.Thorough())
	c.R.Info["command_level_programs"] = len(ps)
	for i, sp := range ps {
		if !c.Mine(3000017 + i) {
			continue
		}
		if c.Expired() {
			c.NotExhaustive("deadline in the command-level part")
			return
		}
		if !explore.RunProgram(c, mkCmd(sp)) && c.R.InfraError != "" {
			return
		}
	}
}
