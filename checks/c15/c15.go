// Package c15 decides C15: named resource locks - writers exclude everyone, readers share,
// no deadlock. Engine: enumeration of all lock-map configurations for 2-3 holders x
// preemption-bounded exhaustive schedule exploration (map iteration order inside Lock is an
// explored choice) of the real shared mutex.
package c15

import (
	"encoding/json"
	"fmt"
	"sort"
	"strings"

	"github.com/goatcms/goatcore/app/modules/commonm/commservices"
	"github.com/goatcms/goatcore/app/modules/commonm/commservices/mutex"
	"github.com/goatcms/goatcore/zzverif/vsched"

	"verif/checks/c14"
	"verif/explore"
	"verif/fw"
)

// Spec: one lock map per holder, e.g. {"a":"W","b":"R"}.
type Spec struct {
	Holders []map[string]string `json:"holders"`
	Bound   int                 `json:"bound"`
	// HoldUntil[i] = j: holder i stays inside its critical section until holder j has entered (only
	// used where i and j are compatible and nothing else can keep j out for good): if the lock
	// serialises them the program never finishes
	HoldUntil map[int]int `json:"hold_until,omitempty"`
}

func (s Spec) name() string {
	var l []string
	for _, h := range s.Holders {
		var ks []string
		for k := range h {
			ks = append(ks, k)
		}
		sort.Strings(ks)
		var p []string
		for _, k := range ks {
			p = append(p, k+h[k])
		}
		l = append(l, strings.Join(p, ""))
	}
	if len(s.HoldUntil) > 0 {
		return strings.Join(l, "|") + fmt.Sprintf("/hold%v", s.HoldUntil)
	}
	return strings.Join(l, "|")
}

// conflict: the two maps name a common resource and at least one side wants write access.
func conflict(a, b map[string]string) bool {
	for k, va := range a {
		if vb, ok := b[k]; ok && (va == "W" || vb == "W") {
			return true
		}
	}
	return false
}

type obs struct {
	inside   map[int]bool
	entered  map[int]bool
	overlap  map[string]bool // pairs "i-j" seen overlapping in this execution
	bad      string
	done     bool
}

var focus = []string{"commservices/mutex", "checks/c15"}

func build(sp Spec, o *obs) func() {
	return func() {
		*o = obs{inside: map[int]bool{}, entered: map[int]bool{}, overlap: map[string]bool{}}
		sm := mutex.NewSharedMutex()
		var wg vsched.WaitGroup
		for i, h := range sp.Holders {
			i, h := i, h
			wg.Add(1)
			vsched.Spawn(func() {
				defer wg.Done()
				lm := commservices.LockMap{}
				for k, v := range h {
					lm[k] = v == "W"
				}
				u := sm.Lock(lm)
				for j := range o.inside {
					key := fmt.Sprintf("%d-%d", min(i, j), max(i, j))
					o.overlap[key] = true
					if conflict(sp.Holders[i], sp.Holders[j]) && o.bad == "" {
						o.bad = fmt.Sprintf("holder %d %v entered while holder %d %v was inside", i, sp.Holders[i], j, sp.Holders[j])
					}
				}
				o.inside[i] = true
				o.entered[i] = true
				vsched.Point("critical-section")
				if j, ok := sp.HoldUntil[i]; ok {
					for !o.entered[j] {
						vsched.Yield()
					}
				}
				delete(o.inside, i)
				u.Unlock()
			})
		}
		wg.Wait()
		o.done = true
	}
}

func min(a, b int) int {
	if a < b {
		return a
	}
	return b
}
func max(a, b int) int {
	if a > b {
		return a
	}
	return b
}

func lockMaps() []map[string]string {
	var out []map[string]string
	for _, a := range []string{"", "R", "W"} {
		for _, b := range []string{"", "R", "W"} {
			m := map[string]string{}
			if a != "" {
				m["a"] = a
			}
			if b != "" {
				m["b"] = b
			}
			if len(m) > 0 {
				out = append(out, m)
			}
		}
	}
	return out
}

func programs(thorough bool) []Spec {
	maps := lockMaps()
	b2, b3 := 3, 2
	if thorough {
		b2, b3 = 5, 3
	}
	var ps []Spec
	for i, a := range maps {
		for _, b := range maps[i:] {
			ps = append(ps, Spec{Holders: []map[string]string{a, b}, Bound: b2})
		}
	}
	for i, a := range maps {
		for j, b := range maps[i:] {
			for _, c := range maps[i+j:] {
				if !thorough && len(a)+len(b)+len(c) < 5 {
					continue // quick: only the triples with two-resource maps
				}
				ps = append(ps, Spec{Holders: []map[string]string{a, b, c}, Bound: b3})
			}
		}
	}
	// non-serialisation as a per-execution fact: X holds resource a until the compatible holder Y
	// has entered, while Z (conflicting with X on a - the first resource in acquisition order, so Z
	// owns nothing while it waits) is blocked inside Lock
	x := map[string]string{"a": "W"}
	for _, z := range []map[string]string{{"a": "W", "b": "R"}, {"a": "W", "b": "W"}, {"a": "R", "b": "R"}, {"a": "W"}} {
		for _, y := range []map[string]string{{"c": "W", "d": "W"}, {"b": "R", "c": "W"}, {"b": "R", "d": "R"}, {"c": "R"}, {"c": "W"}} {
			if conflict(z, y) {
				continue
			}
			ps = append(ps, Spec{Holders: []map[string]string{x, z, y}, Bound: 2, HoldUntil: map[int]int{0: 2}})
		}
	}
	// many pairwise DISJOINT holders that must all be inside at the same time (a ring: holder i stays
	// inside until holder i+1 has entered): any two names that the lock maps onto one underlying mutex
	// turn this into a deadlock - by the pigeonhole principle for every table of fewer slots than names
	for _, n := range []int{3, 140} {
		hs := make([]map[string]string, n)
		hold := map[int]int{}
		for i := range hs {
			mode := "W"
			if i%5 == 4 {
				mode = "R"
			}
			hs[i] = map[string]string{fmt.Sprintf("res_%d", i): mode, "shared": "R"}
			hold[i] = (i + 1) % n
		}
		ps = append(ps, Spec{Holders: hs, Bound: 0, HoldUntil: hold})
	}
	return ps
}

func run(c *fw.Ctx) {
	ps := programs(c.Thorough())
	c.R.Info["programs_total"] = len(ps)
	c.R.Info["focus"] = focus
	for i, sp := range ps {
		if !c.Mine(i) {
			continue
		}
		if c.Expired() {
			c.NotExhaustive("deadline")
			break
		}
		sp := sp
		o := &obs{}
		seenOverlap := map[string]bool{}
		opt := explore.Options{Bound: sp.Bound, Focus: focus, MapPerm: true, MapCost: 1, NoShard: true, MaxSteps: 5000 + 40*len(sp.Holders)*len(sp.Holders)}
		if len(sp.Holders) > 3 {
			// the large ring: whether two names share an underlying mutex does not depend on the schedule
			// (if they do, no schedule gets all holders inside; lock-order questions are the small programs'),
			// so only the default schedule is run - declared reduction
			opt.OnlyKinds = []int{vsched.KindMap}
		}
		p := &explore.Program{Prop: "C15", Name: sp.name(), Spec: sp,
			Opt:  opt,
			Body: build(sp, o),
			Judge: func(x *explore.Exec) *explore.Verdict {
				if !o.done {
					return &explore.Verdict{Kind: "not-finished", Clause: "acquisition never deadlocks", Detail: "holders did not all finish"}
				}
				for k := range o.overlap {
					seenOverlap[k] = true
				}
				if o.bad != "" {
					return &explore.Verdict{Kind: "exclusion-violated", Clause: "two holders whose lock maps name the same resource never hold it at the same time unless both asked for read access", Detail: o.bad}
				}
				return nil
			},
			Outcome: func() string {
				var l []string
				for k := range o.overlap {
					l = append(l, k)
				}
				sort.Strings(l)
				return strings.Join(l, ",")
			},
		}
		ok := explore.RunProgram(c, p)
		if !ok && c.R.InfraError != "" {
			return
		}
		if !ok {
			continue
		}
		// existential clause: compatible holders are not serialised by the lock
		for a := 0; a < len(sp.Holders); a++ {
			for b := a + 1; b < len(sp.Holders); b++ {
				if conflict(sp.Holders[a], sp.Holders[b]) {
					continue
				}
				// a third, conflicting holder may legitimately keep them apart only some of the time;
				// the default schedule with preemptions must still show them together at least once
				if !seenOverlap[fmt.Sprintf("%d-%d", a, b)] {
					sg := "C15/compatible-holders-serialised"
					if !c.Violated(sg) {
						c.Violate(&fw.Violation{Property: "C15", Clause: "holders of disjoint or read-only-overlapping maps are not serialised against each other by the lock", Signature: sg,
							Detail:  fmt.Sprintf("program %s: holders %d %v and %d %v never overlapped in any of the explored schedules (bound %d)", sp.name(), a, sp.Holders[a], b, sp.Holders[b], sp.Bound),
							Witness: fw.JSON(explore.Witness{Program: sp.name(), Spec: sp, Choices: nil})})
					} else {
						c.Violate(&fw.Violation{Signature: sg})
					}
				}
			}
		}
		if i%23 == 5 {
			c.Sample(map[string]interface{}{"holders": sp.Holders, "bound": sp.Bound})
		}
	}
	runRunner(c)
	runCmd(c)
}

// runRunner: the task runner is the lock's main client (anchored in runner.go): programs that combine
// wait lists with named locks, through the whole-application harness of C14.
func runRunner(c *fw.Ctx) {
	ps := c14.LockWaitPrograms(c.Thorough())
	c.R.Info["runner_programs"] = len(ps)
	for i, sp := range ps {
		if !c.Mine(2000003 + i) {
			continue
		}
		if c.Expired() {
			c.NotExhaustive("deadline in the runner part")
			return
		}
		if !explore.RunProgram(c, c14.MkProgramFor("C15", sp)) && c.R.InfraError != "" {
			return
		}
	}
}

func maxi(a, b int) int {
	if a > b {
		return a
	}
	return b
}

func replay(wj json.RawMessage) (*fw.Violation, error) {
	var rw struct {
		Program string    `json:"program"`
		Spec    c14.Spec  `json:"spec"`
		Choices []int     `json:"choices"`
	}
	var cw struct {
		Program string  `json:"program"`
		Spec    CmdSpec `json:"spec"`
		Choices []int   `json:"choices"`
	}
	if err := json.Unmarshal(wj, &cw); err == nil && strings.HasPrefix(cw.Program, "cmd: ") {
		return explore.ReplayProgram(mkCmd(cw.Spec), cw.Choices)
	}
	if err := json.Unmarshal(wj, &rw); err == nil && strings.HasPrefix(rw.Program, "runner: ") {
		return explore.ReplayProgram(c14.MkProgramFor("C15", rw.Spec), rw.Choices)
	}
	var w struct {
		Spec    Spec  `json:"spec"`
		Choices []int `json:"choices"`
	}
	if err := json.Unmarshal(wj, &w); err != nil {
		return nil, err
	}
	o := &obs{}
	p := &explore.Program{Prop: "C15", Name: w.Spec.name(), Spec: w.Spec,
		Opt:  explore.Options{Bound: -1, Focus: focus, MapPerm: true, MaxSteps: 5000},
		Body: build(w.Spec, o),
		Judge: func(x *explore.Exec) *explore.Verdict {
			if o.bad != "" {
				return &explore.Verdict{Kind: "exclusion-violated", Clause: "exclusion", Detail: o.bad}
			}
			return nil
		}}
	if w.Choices == nil {
		// existential finding: re-explore the program
		found := false
		opt := p.Opt
		opt.Bound = w.Spec.Bound
		opt.NoShard = true
		explore.Explore(opt, p.Body, func(x *explore.Exec) bool {
			if len(o.overlap) > 0 {
				found = true
			}
			return true
		})
		if !found {
			return &fw.Violation{Property: "C15", Clause: "not serialised", Signature: "C15/compatible-holders-serialised", Detail: "no overlapping execution found"}, nil
		}
		return nil, nil
	}
	return explore.ReplayProgram(p, w.Choices)
}

func init() {
	fw.Register(&fw.Check{ID: "C15", Level: "model_checking",
		Rule: "programs = every unordered pair (36) and triple of holders with lock maps over resources {a,b} (absent/R/W per resource, non-empty; quick: triples with >=5 lock entries, thorough: all 120); holder = Lock(map), enter, scheduling point, exit, Unlock; every schedule with <=3/2 (quick) or <=5/3 (thorough) preemptions, the iteration order of the lock map inside Lock being an additional explored choice; oracle: no two conflicting holders inside at once, every compatible pair overlaps in at least one explored execution, no deadlock; 17 programs over resources {a,b,c,d} in which a holder stays inside until a compatible holder has entered while a third, conflicting holder is blocked inside Lock (serialisation of unrelated holders shows as a program that never finishes); 2 ring programs with 3 and 140 pairwise disjoint holders (plus one shared read resource) that must all be inside at once (names mapped onto a common underlying mutex - any table of fewer slots than names - deadlock; the 140-holder ring runs its default schedule only: aliasing of names is schedule-independent); plus the lock's main client: 3 programs that combine the task runner's wait lists with named write/read locks (a task blocked on its wait list must not hold its resources), driven through the whole-application harness of C14 under every schedule with free context switches at blocking points; 3 (thorough 5) command-level programs: two pip:run commands issued from two goroutines whose --rlock/--wlock lists name the same resource (also on both lists: write access wins), exclusion judged inside the task bodies. states = distinct schedule traces",
		Run: run, Replay: replay,
		Assumptions: []string{"2 resources, 2-3 holders; Go's RWMutex writer preference is modelled by the shim (announced writer blocks later readers)"}})
}
