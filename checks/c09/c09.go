// Package c09 decides C09: the in-memory filespace stays consistent under concurrent use.
// Engine: program enumeration (pairs, triples, curated multi-operation threads) x
// preemption-bounded exhaustive schedule exploration of the real memfs; every complete
// interleaving's call/return history is checked for linearizability against the tree model
// (porcupine), together with the final tree, structural sanity, panics, deadlocks and the
// happens-before race oracle.
package c09

import (
	"encoding/json"
	"fmt"
	"io"
	"strings"

	"github.com/anishathalye/porcupine"
	"github.com/goatcms/goatcore/filesystem"
	"github.com/goatcms/goatcore/filesystem/filespace/memfs"
	"github.com/goatcms/goatcore/zzverif/vsched"

	"verif/explore"
	"verif/fsx"
	"verif/fw"
	"verif/models/treefs"
)

// Spec of a program: initial tree + per-thread operation names.
type Spec struct {
	Init    string     `json:"init"` // empty | df
	Threads [][]string `json:"threads"`
	Bound   int        `json:"bound"`
}

// the operation alphabet (by name)
func opOf(name string) (treefs.Op, bool) {
	switch name {
	case "write-f-v1":
		return treefs.Op{Kind: "WriteFile", P: "d/f", Data: "v1-111"}, true
	case "write-f-v2":
		return treefs.Op{Kind: "WriteFile", P: "d/f", Data: "v2-longer"}, true
	case "read-f":
		return treefs.Op{Kind: "ReadFile", P: "d/f"}, true
	case "mkdir-e":
		return treefs.Op{Kind: "MkdirAll", P: "d/e"}, true
	case "write-g":
		return treefs.Op{Kind: "WriteFile", P: "d/e/g", Data: "g"}, true
	case "remove-f":
		return treefs.Op{Kind: "Remove", P: "d/f"}, true
	case "removeall-d":
		return treefs.Op{Kind: "RemoveAll", P: "d"}, true
	case "readdir-d":
		return treefs.Op{Kind: "ReadDir", P: "d"}, true
	case "copy-f-h":
		return treefs.Op{Kind: "CopyFile", P: "d/f", Q: "d/h"}, true
	case "copydir-d-c":
		return treefs.Op{Kind: "CopyDirectory", P: "d", Q: "c"}, true
	case "write-c-new":
		return treefs.Op{Kind: "WriteFile", P: "c/new", Data: "v1-111"}, true
	case "mkdir-c-sub":
		return treefs.Op{Kind: "MkdirAll", P: "c/sub"}, true
	case "read-c-f":
		return treefs.Op{Kind: "ReadFile", P: "c/f"}, true
	case "read-c-g":
		return treefs.Op{Kind: "ReadFile", P: "c/g"}, true
	case "isfile-c-h":
		return treefs.Op{Kind: "IsFile", P: "c/h"}, true
	case "write-c-f":
		return treefs.Op{Kind: "WriteFile", P: "c/f", Data: "v1-111"}, true
	case "lstat-c-g":
		return treefs.Op{Kind: "Lstat", P: "c/g"}, true
	case "write-over-d":
		// (refused when d is a directory; the refusal must leave nothing locked)
		return treefs.Op{Kind: "WriteFile", P: "d", Data: "dd"}, true
	case "write-t":
		return treefs.Op{Kind: "WriteFile", P: "t", Data: "tt"}, true
	case "stream-write-t2":
		return treefs.Op{Kind: "Writer", P: "t2", Chunks: []string{"t2"}}, true
	case "gcopy-f-h":
		return treefs.Op{Kind: "Copy", P: "d/f", Q: "d/h"}, true
	case "write-n-a":
		return treefs.Op{Kind: "WriteFile", P: "d/n", Data: "na"}, true
	case "write-n-b":
		return treefs.Op{Kind: "WriteFile", P: "d/n", Data: "nb"}, true
	case "mkdir-d":
		return treefs.Op{Kind: "MkdirAll", P: "d"}, true
	case "remove-g":
		return treefs.Op{Kind: "Remove", P: "d/g"}, true
	case "remove-h":
		return treefs.Op{Kind: "Remove", P: "d/h"}, true
	case "read-g":
		return treefs.Op{Kind: "ReadFile", P: "d/g"}, true
	case "isfile-f":
		return treefs.Op{Kind: "IsFile", P: "d/f"}, true
	case "readdir-root":
		return treefs.Op{Kind: "ReadDir", P: "."}, true
	}
	return treefs.Op{}, false
}

type event struct {
	client int
	op     treefs.Op
	res    fsx.Result
	call   int64
	ret    int64
}

type obs struct {
	events []event
	clock  int64
	final  map[string]string
	probs  []string
	done   bool
}

func (o *obs) tick() int64 { o.clock++; return o.clock }

func readHalf(r io.Reader, n int) (string, error) {
	buf := make([]byte, n)
	k, err := r.Read(buf)
	return string(buf[:k]), err
}

func build(sp Spec, o *obs) func() {
	return func() {
		*o = obs{}
		fs, _ := memfs.NewFilespace()
		if sp.Init == "df" || sp.Init == "d3" || sp.Init == "d3copy" {
			fs.WriteFile("d/f", []byte("v0-000"), 0644)
		}
		if sp.Init == "d3" || sp.Init == "d3copy" { // three files stored in this order in one directory
			fs.WriteFile("d/g", []byte("g"), 0644)
			fs.WriteFile("d/h", []byte("na"), 0644)
		}
		if sp.Init == "d3copy" {
			// the directory the threads use is a deep COPY whose nodes nobody has looked up yet (whatever a
			// copy prepares lazily is prepared by the concurrent first users)
			fs.CopyDirectory("d", "c")
		}
		var wg vsched.WaitGroup
		for ti, names := range sp.Threads {
			ti, names := ti, names
			wg.Add(1)
			vsched.Spawn(func() {
				defer wg.Done()
				for _, name := range names {
					runNamed(fs, o, ti, name)
				}
			})
		}
		wg.Wait()
		o.final, o.probs = fsx.Walk(fs)
		o.done = true
	}
}

func record(o *obs, ti int, op treefs.Op, call int64, res fsx.Result) {
	o.events = append(o.events, event{client: ti, op: op, res: res, call: call, ret: o.tick()})
}

// runNamed executes one (possibly composite) named operation and records its event(s).
func runNamed(fs filesystem.Filespace, o *obs, ti int, name string) {
	if op, ok := opOf(name); ok {
		call := o.tick()
		res := fsx.Exec(fs, op)
		record(o, ti, op, call, res)
		return
	}
	switch name {
	case "stream-write-f":
		// writer held open across a scheduling point
		op := treefs.Op{Kind: "Writer", P: "d/f", Chunks: []string{"v3a", "v3b"}}
		call := o.tick()
		var res fsx.Result
		w, err := fs.Writer("d/f")
		if err != nil {
			res.Err = err.Error()
		} else {
			w.Write([]byte("v3a"))
			vsched.Point("writer-open")
			w.Write([]byte("v3b"))
			if err := w.Close(); err != nil {
				res.Err = err.Error()
			}
		}
		record(o, ti, op, call, res)
	case "stream-read-f":
		op := treefs.Op{Kind: "Reader", P: "d/f", Buf: 2}
		call := o.tick()
		var res fsx.Result
		r, err := fs.Reader("d/f")
		if err != nil {
			res.Err = err.Error()
		} else {
			first, e1 := readHalf(r, 2)
			vsched.Point("reader-open")
			rest := ""
			if e1 == nil {
				rest, _, err = fsx.ReadAllBuf(r, 3)
				if err != nil {
					res.Err = err.Error()
				}
			}
			res.Data = first + rest
			r.Close()
		}
		record(o, ti, op, call, res)
	case "read-f-held-while-write-n":
		// a reader kept open while the same thread writes another file of the directory
		op := treefs.Op{Kind: "Reader", P: "d/f", Buf: 64}
		call := o.tick()
		var res fsx.Result
		r, err := fs.Reader("d/f")
		if err != nil {
			res.Err = err.Error()
			record(o, ti, op, call, res)
			return
		}
		wop := treefs.Op{Kind: "WriteFile", P: "d/n", Data: "na"}
		wcall := o.tick()
		wres := fsx.Exec(fs, wop)
		record(o, ti, wop, wcall, wres)
		res.Data, _, err = fsx.ReadAllBuf(r, 64)
		if err != nil {
			res.Err = err.Error()
		}
		r.Close()
		record(o, ti, op, call, res)
	case "write-f-held-while-write-n":
		// a writer kept open while the same thread writes another file of the directory
		op := treefs.Op{Kind: "Writer", P: "d/f", Chunks: []string{"v4a", "v4b"}}
		call := o.tick()
		var res fsx.Result
		w, err := fs.Writer("d/f")
		if err != nil {
			res.Err = err.Error()
			record(o, ti, op, call, res)
			return
		}
		w.Write([]byte("v4a"))
		wop := treefs.Op{Kind: "WriteFile", P: "d/n", Data: "na"}
		wcall := o.tick()
		wres := fsx.Exec(fs, wop)
		record(o, ti, wop, wcall, wres)
		w.Write([]byte("v4b"))
		if err := w.Close(); err != nil {
			res.Err = err.Error()
		}
		record(o, ti, op, call, res)
	default:
		panic("unknown op " + name)
	}
}

// porcupine model over the tree reference model
type state struct {
	t   *treefs.Node
	key string
}

func mkState(t *treefs.Node) state { return state{t, t.Key()} }

var fsModel = porcupine.Model{
	Init: func() interface{} { return mkState(treefs.NewDir()) },
	Step: func(st, in, out interface{}) (bool, interface{}) {
		s := st.(state)
		ev := in.(event)
		res := out.(fsx.Result)
		if ev.op.Kind == "Init" {
			return true, mkState(ev.init())
		}
		if ev.op.Kind == "Final" {
			return res.Data == s.key, s
		}
		e := treefs.Apply(s.t, ev.op)
		ok := res.Err == ""
		switch ev.op.Kind {
		case "IsExist", "IsFile", "IsDir":
			return res.Bool == e.Bool, s
		}
		switch e.Class {
		case treefs.MustOK:
			if !ok {
				return false, s
			}
		case treefs.MustFail:
			return !ok, s
		case treefs.Either, treefs.Unspecified:
			if !ok {
				return true, s
			}
			if e.After == nil && (ev.op.Kind == "CopyFile" || ev.op.Kind == "Copy") {
				return false, s // success of an unspecified copy: not accepted by this model (memfs refuses it)
			}
		}
		switch ev.op.Kind {
		case "ReadFile", "Reader":
			return res.Data == e.Data, s
		case "ReadDir":
			return strings.Join(res.List, ",") == strings.Join(e.List, ","), s
		}
		if e.After != nil {
			return true, mkState(e.After)
		}
		return true, s
	},
	Equal: func(a, b interface{}) bool { return a.(state).key == b.(state).key },
}

func (e event) init() *treefs.Node {
	t := treefs.NewDir()
	if e.op.P == "df" || e.op.P == "d3" || e.op.P == "d3copy" {
		d := treefs.NewDir()
		d.Kids["f"] = &treefs.Node{Data: "v0-000"}
		if e.op.P != "df" {
			d.Kids["g"] = &treefs.Node{Data: "g"}
			d.Kids["h"] = &treefs.Node{Data: "na"}
		}
		t.Kids["d"] = d
		if e.op.P == "d3copy" {
			t.Kids["c"] = d.Clone()
		}
	}
	return t
}

func flatToKey(flat map[string]string) string {
	// rebuild a model tree from the walked snapshot to reuse Key()
	t := treefs.NewDir()
	var paths []string
	for p := range flat {
		paths = append(paths, p)
	}
	for _, p := range paths {
		segs := strings.Split(p, "/")
		cur := t
		for i, s := range segs {
			if i == len(segs)-1 {
				if flat[p] == "dir" {
					if cur.Kids[s] == nil {
						cur.Kids[s] = treefs.NewDir()
					}
				} else {
					cur.Kids[s] = &treefs.Node{Data: strings.TrimPrefix(flat[p], "file:")}
				}
			} else {
				if cur.Kids[s] == nil {
					cur.Kids[s] = treefs.NewDir()
				}
				cur = cur.Kids[s]
			}
		}
	}
	return t.Key()
}

func judge(sp Spec, o *obs) func(x *explore.Exec) *explore.Verdict {
	return func(x *explore.Exec) *explore.Verdict {
		if !o.done {
			return &explore.Verdict{Kind: "not-finished", Clause: "no call blocks forever", Detail: "harness did not finish"}
		}
		for _, ev := range o.events {
			if ev.res.Panic != "" {
				return &explore.Verdict{Kind: "op-panic/" + ev.op.Kind, Clause: "no call panics", Detail: fmt.Sprintf("%s panicked: %s", fsx.OpString(ev.op), ev.res.Panic)}
			}
		}
		if len(o.probs) > 0 {
			kind := "final-tree-malformed"
			if strings.Contains(o.probs[0], "twice") {
				kind = "name-listed-twice"
			}
			return &explore.Verdict{Kind: kind, Clause: "two concurrent creations of the same new node yield one node; listings contain each name once", Detail: strings.Join(o.probs, "; ")}
		}
		ops := []porcupine.Operation{{ClientId: 98, Input: event{op: treefs.Op{Kind: "Init", P: sp.Init}}, Call: -2, Output: fsx.Result{}, Return: -1}}
		for _, ev := range o.events {
			ops = append(ops, porcupine.Operation{ClientId: ev.client, Input: ev, Call: ev.call, Output: ev.res, Return: ev.ret})
			// creating the missing parents is not required to be atomic with the creation of the
			// node itself (the statement only speaks about nodes and values): a successful
			// creating operation may make each parent directory visible earlier, anywhere inside
			// its own call interval
			if ev.res.Err == "" {
				target := ""
				switch ev.op.Kind {
				case "WriteFile", "Writer", "MkdirAll":
					target = ev.op.P
				case "CopyFile", "Copy", "CopyDirectory":
					target = ev.op.Q
				}
				segs := strings.Split(target, "/")
				for i := 1; i < len(segs) && target != ""; i++ {
					pre := event{client: ev.client, op: treefs.Op{Kind: "MkdirAll", P: strings.Join(segs[:i], "/")}, call: ev.call, ret: ev.ret}
					ops = append(ops, porcupine.Operation{ClientId: 50 + ev.client, Input: pre, Call: ev.call, Output: fsx.Result{}, Return: ev.ret})
				}
			}
		}
		ops = append(ops, porcupine.Operation{ClientId: 99, Input: event{op: treefs.Op{Kind: "Final"}}, Call: o.clock + 1, Output: fsx.Result{Data: flatToKey(o.final)}, Return: o.clock + 2})
		if !porcupine.CheckOperations(fsModel, ops) {
			if copyUnderConcurrentRemoveAll(o) && weakOK(o) {
				// a copy reads its source node and creates its destination node in two steps;
				// when a concurrent recursive remove covers both, the statement only requires
				// complete values, unique names and no panic/deadlock (all checked)
				return nil
			}
			var l []string
			for _, ev := range o.events {
				l = append(l, fmt.Sprintf("T%d %s -> err=%q data=%q list=%v bool=%v [%d,%d]", ev.client, fsx.OpString(ev.op), ev.res.Err, ev.res.Data, ev.res.List, ev.res.Bool, ev.call, ev.ret))
			}
			kind := "not-linearizable"
			for _, ev := range o.events {
				if (ev.op.Kind == "ReadFile" || ev.op.Kind == "Reader") && ev.res.Err == "" && !completeValue(ev.res.Data) {
					kind = "torn-read"
				}
			}
			return &explore.Verdict{Kind: kind, Clause: "every successful operation takes effect and is visible afterwards; a file holds exactly one of the values written; readers only see complete written values", Detail: fmt.Sprintf("no sequential order of these calls (respecting real time) explains the results and the final tree {%s}:\n  %s", strings.ReplaceAll(flatToKey(o.final), "\n", ", "), strings.Join(l, "\n  "))}
		}
		return nil
	}
}

func under(p, r string) bool { return p == r || strings.HasPrefix(p, r+"/") }

func copyUnderConcurrentRemoveAll(o *obs) bool {
	for _, c := range o.events {
		if (c.op.Kind != "CopyFile" && c.op.Kind != "Copy") || c.res.Err != "" {
			continue
		}
		for _, r := range o.events {
			if r.op.Kind != "RemoveAll" || r.res.Err != "" || r.client == c.client {
				continue
			}
			overlap := r.call < c.ret && c.call < r.ret
			if overlap && under(c.op.P, r.op.P) && under(c.op.Q, r.op.P) {
				return true
			}
		}
	}
	return false
}

// weakOK: the clause-level oracle (complete values everywhere).
func weakOK(o *obs) bool {
	for _, ev := range o.events {
		if (ev.op.Kind == "ReadFile" || ev.op.Kind == "Reader") && ev.res.Err == "" && !completeValue(ev.res.Data) {
			return false
		}
	}
	for _, v := range o.final {
		if strings.HasPrefix(v, "file:") && !completeValue(strings.TrimPrefix(v, "file:")) {
			return false
		}
	}
	return true
}

func completeValue(v string) bool {
	switch v {
	case "v0-000", "v1-111", "v2-longer", "v3av3b", "g", "na", "nb":
		return true
	}
	return false
}

var single = []string{"write-f-v1", "write-f-v2", "read-f", "stream-write-f", "stream-read-f", "mkdir-e", "write-g", "remove-f", "removeall-d", "readdir-d", "copy-f-h", "write-n-a"}

func programs(thorough bool) []Spec {
	b2, b3, b22 := 3, 2, 3
	if thorough {
		b2, b3, b22 = 8, 4, 5
	}
	var ps []Spec
	for _, init := range []string{"empty", "df"} {
		for i, a := range single {
			for _, b := range single[i:] {
				ps = append(ps, Spec{init, [][]string{{a}, {b}}, b2})
			}
		}
		// same-name creations and friends
		ps = append(ps,
			Spec{init, [][]string{{"write-n-a"}, {"write-n-b"}, {"readdir-d"}}, b3},
			Spec{init, [][]string{{"mkdir-e"}, {"mkdir-e"}, {"write-g"}}, b3},
			Spec{init, [][]string{{"mkdir-d"}, {"mkdir-d"}, {"readdir-root"}}, b3},
			Spec{init, [][]string{{"write-f-v1"}, {"write-f-v2"}, {"read-f"}}, b3},
			Spec{init, [][]string{{"write-f-v1"}, {"stream-write-f"}, {"stream-read-f"}}, b3},
			Spec{init, [][]string{{"remove-f"}, {"write-f-v1"}, {"isfile-f"}}, b3},
			Spec{init, [][]string{{"removeall-d"}, {"write-g"}, {"readdir-d"}}, b3},
			Spec{init, [][]string{{"copy-f-h"}, {"write-f-v2"}, {"remove-f"}}, b3},
			// two operations per thread
			Spec{init, [][]string{{"write-f-v1", "read-f"}, {"write-f-v2", "read-f"}}, b22},
			Spec{init, [][]string{{"remove-f", "write-f-v1"}, {"read-f", "readdir-d"}}, b22},
			Spec{init, [][]string{{"mkdir-e", "write-g"}, {"removeall-d", "mkdir-e"}}, b22},
			Spec{init, [][]string{{"write-n-a", "readdir-d"}, {"write-n-b", "readdir-d"}}, b22},
			// an open handle held across another operation of the same directory
			Spec{init, [][]string{{"read-f-held-while-write-n"}, {"stream-write-f"}}, b2},
			Spec{init, [][]string{{"read-f-held-while-write-n"}, {"write-f-v1"}}, b2},
			Spec{init, [][]string{{"read-f-held-while-write-n"}, {"stream-write-f"}, {"readdir-d"}}, b3},
			// ... while another thread copies that file into the same directory (the copy waits for the handle)
			Spec{init, [][]string{{"read-f-held-while-write-n"}, {"copy-f-h"}}, b2},
			Spec{init, [][]string{{"read-f-held-while-write-n"}, {"gcopy-f-h"}}, b2},
			Spec{init, [][]string{{"write-f-held-while-write-n"}, {"copy-f-h"}}, b2},
			Spec{init, [][]string{{"write-f-held-while-write-n"}, {"gcopy-f-h"}}, b2},
			Spec{init, [][]string{{"write-f-held-while-write-n"}, {"read-f"}}, b2},
			// a refused operation followed by / racing with successful ones in the same directory
			Spec{init, [][]string{{"write-over-d", "write-t"}, {"stream-write-t2"}}, b2},
			Spec{init, [][]string{{"write-over-d"}, {"write-t"}, {"mkdir-e"}}, b3},
		)
	}
	// several nodes in one directory: operations on DISTINCT names of a shared directory
	multi := []string{"remove-f", "remove-g", "remove-h", "write-n-a", "readdir-d", "read-g", "copy-f-h", "mkdir-e"}
	for i, a := range multi {
		for _, b := range multi[i+1:] {
			ps = append(ps, Spec{"d3", [][]string{{a}, {b}}, b2})
		}
	}
	// a directory is deep-copied while other goroutines are inside the source directory's locks; the copy
	// is then written to (whatever lock state the source had at that instant is the source's, not the copy's)
	for _, other := range []string{"write-n-a", "readdir-d", "stream-write-f", "remove-f", "read-f-held-while-write-n"} {
		ps = append(ps, Spec{"df", [][]string{{other}, {"copydir-d-c", "write-c-new"}}, b2})
	}
	ps = append(ps, Spec{"df", [][]string{{"write-n-a"}, {"readdir-d"}, {"copydir-d-c", "mkdir-c-sub"}}, b3})
	// first use of a freshly copied directory from several goroutines
	cops := []string{"read-c-f", "read-c-g", "isfile-c-h", "write-c-f", "lstat-c-g"}
	for i, a := range cops {
		for _, b := range cops[i:] {
			ps = append(ps, Spec{"d3copy", [][]string{{a}, {b}}, b2})
		}
	}
	ps = append(ps, Spec{"d3copy", [][]string{{"read-c-f"}, {"read-c-g"}, {"write-c-f"}}, b3})
	ps = append(ps,
		Spec{"d3", [][]string{{"remove-f"}, {"remove-g"}, {"remove-h"}}, b3},
		Spec{"d3", [][]string{{"remove-f"}, {"remove-h"}, {"readdir-d"}}, b3},
		Spec{"d3", [][]string{{"remove-g"}, {"write-n-a"}, {"readdir-d"}}, b3},
		Spec{"d3", [][]string{{"remove-f", "remove-g"}, {"remove-h", "readdir-d"}}, b22},
	)
	return ps
}

var focus = []string{"filespace/memfs", "checks/c09"}

func mkProgram(sp Spec) *explore.Program {
	o := &obs{}
	var tn []string
	for _, t := range sp.Threads {
		tn = append(tn, strings.Join(t, "+"))
	}
	return &explore.Program{Prop: "C09", Name: sp.Init + ":" + strings.Join(tn, "|"), Spec: sp,
		Opt:  explore.Options{Bound: sp.Bound, Focus: focus, Race: true, MaxSteps: 20000},
		Body: build(sp, o), Judge: judge(sp, o),
		Outcome: func() string { return flatToKey(o.final) },
		RaceOK:  func(r vsched.RaceInfo) bool { return !strings.Contains(r.First, "memfs") && !strings.Contains(r.Second, "memfs") },
	}
}

func run(c *fw.Ctx) {
	ps := programs(c.Thorough())
	c.R.Info["programs_total"] = len(ps)
	c.R.Info["focus"] = focus
	for i, sp := range ps {
		if c.Expired() {
			c.NotExhaustive("deadline")
			break
		}
		if !explore.RunProgram(c, mkProgram(sp)) && c.R.InfraError != "" {
			return
		}
		if i%37 == 5 && c.Shard == 0 {
			c.Sample(map[string]interface{}{"program": sp})
		}
	}
}

func replay(wj json.RawMessage) (*fw.Violation, error) {
	var w struct {
		Spec    Spec  `json:"spec"`
		Choices []int `json:"choices"`
	}
	if err := json.Unmarshal(wj, &w); err != nil {
		return nil, err
	}
	return explore.ReplayProgram(mkProgram(w.Spec), w.Choices)
}

func init() {
	fw.Register(&fw.Check{ID: "C09", Level: "model_checking",
		Rule: "programs = (6 programs in which a directory is deep-copied while other goroutines are inside the source directory's locks, and the copy is then written to) + (16 programs of first uses - reads, stat, write - of a directory that was just deep-copied) + initial tree {empty, {d/f}} x (and, with three files d/f, d/g, d/h in one directory, all pairs of 8 operations on distinct names plus 4 larger programs) x (all unordered pairs of 12 single operations on a shared directory d and file d/f: WriteFile x2, ReadFile, writer and reader streams held open across a scheduling point, MkdirAll, nested write, Remove, RemoveAll, ReadDir, CopyFile, new-node write; 8 three-thread programs; 4 two-operation programs; 8 programs holding a reader or a writer open across another operation of the same thread, against stream writes, plain writes, reads and copies of that file into the same directory; 2 programs in which a refused write (onto a directory) is followed by and races with successful writes in the same directory); every schedule of the real memfs with <= bound preemptions (pairs 3/8, triples 2/4, 2x2 3/5 for quick/thorough); oracle: the call/return history plus the final tree must be linearizable w.r.t. the tree model (porcupine), structural sanity of the final tree, no panic, no deadlock, race oracle on memfs fields. states = distinct schedule traces",
		Run: run, Replay: replay,
		Assumptions: []string{"linearizability against the tree model is used as the meaning of 'takes effect and is visible afterwards'; a stream counts as one operation from open to close", "2-3 threads; bounds as reported; word-sized fields outside the race oracle"}})
}
