// Package c16 decides C16: pip:try runs exactly the matching handler and contains the body's
// failure. Engine: program enumeration (bodies x handler subsets x failing handlers) x
// preemption-bounded exhaustive schedule exploration (happens-before cache) through the real
// terminal seam of a mock application bootstrapped per execution.
package c16

import (
	"encoding/json"
	"fmt"
	"strings"

	"verif/checks/pipx"
	"verif/explore"
	"verif/fw"
)

// Spec of one try block.
type Spec struct {
	Body     string `json:"body"`     // ok | fail1 | fail2 | append | nest-ok | nest-fail
	Success  bool   `json:"success"`  // handler defined?
	Fail     bool   `json:"fail"`
	Finally  bool   `json:"finally"`
	HandlerFails string `json:"handler_fails,omitempty"` // success | fail | finally
	Bound    int    `json:"bound"`
	Split    bool   `json:"split,omitempty"` // large program: its schedule tree is divided among all workers
	// Wrapped: the try block runs inside a named pipeline "guarded"; a pipeline "dependent" waits for it
	Wrapped bool `json:"inside_pipeline_with_dependent,omitempty"`
}

func (s Spec) name() string {
	h := ""
	if s.Success {
		h += "S"
	}
	if s.Fail {
		h += "F"
	}
	if s.Finally {
		h += "Y"
	}
	n := s.Body + "/" + h
	if s.HandlerFails != "" {
		n += "/" + s.HandlerFails + "-fails"
	}
	if s.Wrapped {
		n += "/inside-pipeline-with-dependent"
	}
	return n
}

func (s Spec) bodyFails() bool {
	switch s.Body {
	case "fail1", "fail2", "append", "nest-fail", "nest-retfail", "spawn-fail", "broken-quote", "unknown-cmd", "stop-fail", "kill":
		return true
	}
	return false
}

func script(s Spec) string {
	var body []string
	switch s.Body {
	case "ok":
		body = []string{"probe --id=body.c1", "probe --id=body.c2 --yield=1"}
	case "fail1":
		body = []string{"probe --id=body.c1 --fail=return", "probe --id=body.c2"}
	case "fail2":
		body = []string{"probe --id=body.c1", "probe --id=body.c2 --fail=return"}
	case "append":
		body = []string{"probe --id=body.c1 --fail=append"}
	case "nest-ok":
		body = []string{"probe --id=body.c1", `pip:run --name=inner --body=\"probe --id=nested.c1 --yield=1\"`, "probe --id=body.c2"}
	case "nest-retfail":
		// the nested task runs in a sandbox that reports its failure only through Run's return value
		body = []string{"probe --id=body.c1", `pip:run --name=inner --sandbox=retfail:nested.sb --body=\"probe --id=never.c1\"`, "probe --id=body.c2"}
	case "nest-retok":
		body = []string{"probe --id=body.c1", `pip:run --name=inner --sandbox=retok:nested.sb --body=\"probe --id=never.c1\"`, "probe --id=body.c2"}
	case "stop-fail":
		// the failing command has stopped its scope gracefully before it reports the failure
		body = []string{"probe --id=body.c1 --fail=stop-return"}
	case "stop-ok":
		// a command stops its scope gracefully and returns nil: nothing failed (a stopped scope holds no
		// error), so this body has succeeded
		body = []string{"probe --id=body.c1 --stop=1"}
	case "kill":
		// a command kills its scope and returns without an error of its own: a killed body has failed
		body = []string{"probe --id=body.c1 --fail=kill", "probe --id=body.c2"}
	case "broken-quote":
		// the body's script breaks off inside a quoted argument: it cannot be read to its end
		body = []string{"probe --id=body.c1", `probe --id=body.c2 \"never closed`}
	case "unknown-cmd":
		body = []string{"probe --id=body.c1", "no-such-command-at-all"}
	case "spawn-fail":
		// one command starts two concurrent tasks: a slow one that succeeds and one that fails
		body = []string{"probe --id=body.c1 --spawn=fail"}
	case "spawn-ok":
		body = []string{"probe --id=body.c1 --spawn=ok", "probe --id=body.c2"}
	case "nest-fail":
		body = []string{"probe --id=body.c1", `pip:run --name=inner --body=\"probe --id=nested.c1 --fail=return\"`, "probe --id=body.c2"}
	}
	h := func(name string) string {
		c := "probe --id=" + name + ".c1"
		if s.HandlerFails == name {
			c += " --fail=return"
		}
		return c
	}
	line := `pip:try --name=t --body="` + strings.Join(body, "\n") + `"`
	if s.Success {
		line += ` --success="` + h("success") + `"`
	}
	if s.Fail {
		line += ` --fail="` + h("fail") + `"`
	}
	if s.Finally {
		line += ` --finally="` + h("finally") + `"`
	}
	if s.Wrapped {
		// the try block sits inside a named pipeline, and a second pipeline waits for that one: a
		// contained body failure does not make the enclosing pipeline a failed prerequisite
		return "pip:run --name=guarded --body=<<EOB\n" + line + "\nEOB\npip:run --name=dependent --wait=guarded --body=\"probe --id=dependent.c1\"\nprobe --id=after.c1\n"
	}
	return line + "\nprobe --id=after.c1\n"
}

type obs struct {
	w       *pipx.World
	runErr  error
	rootErr int
	done    bool
	infra   string
}

func build(sp Spec, o *obs) func() {
	return func() {
		*o = obs{}
		w, err := pipx.New()
		if err != nil {
			o.infra = err.Error()
			return
		}
		o.w = w
		o.runErr = w.RunScript(script(sp), nil)
		if tm, err := w.Tasks.FromScope(w.Root); err == nil {
			tm.Wait()
		}
		w.Root.Wait()
		o.rootErr = len(w.Root.Errors())
		o.done = true
	}
}

func judge(sp Spec, o *obs) func(x *explore.Exec) *explore.Verdict {
	return func(x *explore.Exec) *explore.Verdict {
		if o.infra != "" {
			return &explore.Verdict{Kind: "harness-error", Detail: o.infra}
		}
		if !o.done {
			return &explore.Verdict{Kind: "not-finished", Clause: "the try block finishes", Detail: "the script (or waiting for its tasks) never returned"}
		}
		w := o.w
		v := func(kind, clause, format string, a ...interface{}) *explore.Verdict {
			return &explore.Verdict{Kind: kind, Clause: clause, Detail: fmt.Sprintf(format, a...) + fmt.Sprintf("\nscript: %q\nevents: %s", script(sp), w.Render())}
		}
		ran := func(p string) bool { return len(w.EventsOf(p+".")) > 0 }
		if len(w.EventsOf("body.c1")) == 0 {
			return v("body-did-not-run", "the body runs", "no body command executed")
		}
		wantSuccess := sp.Success && !sp.bodyFails()
		wantFail := sp.Fail && sp.bodyFails()
		wantFinally := sp.Finally
		if sp.HandlerFails != "" {
			// the handlers are concurrent tasks sharing the surrounding context: once one of them
			// fails the others may be cut short or never start; only "the wrong handler never runs"
			// is required in these programs
			if ran("success") && !wantSuccess {
				return v("success-handler/true", "the success handler runs if and only if the body finished without error", "body=%s: success handler ran", sp.Body)
			}
			if ran("fail") && !wantFail {
				return v("fail-handler/true", "the fail handler runs if and only if the body finished with an error", "body=%s: fail handler ran", sp.Body)
			}
		} else if ran("success") != wantSuccess {
			return v("success-handler/"+fmt.Sprint(ran("success")), "the success handler runs if and only if the body finished without error", "body=%s: success handler ran=%v, expected %v", sp.Body, ran("success"), wantSuccess)
		}
		if sp.HandlerFails == "" && ran("fail") != wantFail {
			return v("fail-handler/"+fmt.Sprint(ran("fail")), "the fail handler runs if and only if the body finished with an error", "body=%s: fail handler ran=%v, expected %v", sp.Body, ran("fail"), wantFail)
		}
		if sp.HandlerFails == "" && ran("finally") != wantFinally {
			return v("finally-handler/"+fmt.Sprint(ran("finally")), "the finally handler runs in both cases", "body=%s: finally handler ran=%v, expected %v", sp.Body, ran("finally"), wantFinally)
		}
		// handlers start only after the body (including tasks it spawned) has finished
		lastBody := 0
		for _, p := range []string{"body.", "nested."} {
			for _, e := range w.EventsOf(p) {
				if e.Step > lastBody {
					lastBody = e.Step
				}
			}
		}
		for _, hname := range []string{"success", "fail", "finally"} {
			for _, e := range w.EventsOf(hname + ".") {
				if e.Step < lastBody {
					return v("handler-before-body-end/"+hname, "handlers start only after the body (including tasks it spawned) has finished", "handler %s began at step %d, the body (or a task it spawned) was still running at step %d", hname, e.Step, lastBody)
				}
			}
		}
		if sp.Body == "spawn-ok" && len(w.EventsOf("nested.")) != 4 {
			return v("nested-task-incomplete", "tasks spawned by the body finish", "spawned task events: %d", len(w.EventsOf("nested.")))
		}
		if (sp.Body == "nest-ok" || sp.Body == "nest-retok") && len(w.EventsOf("nested.")) != 2 {
			return v("nested-task-incomplete", "tasks spawned by the body finish", "nested task events: %d", len(w.EventsOf("nested.")))
		}
		// containment
		handlerFailed := sp.HandlerFails != "" && ran(sp.HandlerFails)
		if !handlerFailed && o.rootErr > 0 {
			return v("body-failure-leaked", "a failing body does not mark the surrounding scope as failed - only a failing handler does", "the surrounding scope holds %d errors although no handler failed (body=%s)", o.rootErr, sp.Body)
		}
		if handlerFailed && o.rootErr == 0 {
			return v("handler-failure-lost", "a failing handler marks the surrounding scope as failed", "handler %s failed but the surrounding scope holds no error", sp.HandlerFails)
		}
		if sp.Wrapped && !handlerFailed && !ran("dependent") {
			return v("dependent-of-enclosing-pipeline-refused", "a failing body does not mark the surrounding scope as failed - only a failing handler does", "the pipeline that waits for the pipeline enclosing the try block did not run although no handler failed")
		}
		// the script goes on after the try block unless the surrounding scope failed
		if !handlerFailed && !ran("after") {
			return v("script-stopped-after-try", "a failing body does not mark the surrounding scope as failed", "the command after the try block did not run")
		}
		return nil
	}
}

func programs(thorough bool) []Spec {
	b := 0
	if thorough {
		b = 1
	}
	var ps []Spec
	for _, body := range []string{"ok", "fail1", "fail2", "append", "nest-ok", "nest-fail", "nest-retfail", "nest-retok", "spawn-fail", "spawn-ok", "broken-quote", "unknown-cmd", "stop-fail", "kill", "stop-ok"} {
		for mask := 0; mask < 8; mask++ {
			s := Spec{Body: body, Success: mask&1 != 0, Fail: mask&2 != 0, Finally: mask&4 != 0, Bound: b}
			if strings.HasPrefix(body, "nest") {
				s.Bound = 0
				if mask != 7 && mask != 0 && mask != 4 && !thorough {
					continue
				}
			}
			if body == "broken-quote" || body == "unknown-cmd" || body == "stop-fail" || body == "kill" || body == "stop-ok" {
				if mask != 7 && mask != 3 && !thorough {
					continue
				}
			}
			if strings.HasPrefix(body, "spawn") {
				// three concurrent threads (two spawned tasks and the closing scope): free switches only,
				// no handler / the fail handler (thorough: all handlers for spawn-ok, finally only)
				s.Bound = 0
				s.Split = true
				if mask != 0 && mask != 2 && !(mask == 7 && body == "spawn-ok" && thorough) && !(mask == 4 && thorough) {
					continue
				}
			}
			ps = append(ps, s)
		}
	}
	// the try block inside a named pipeline that another pipeline waits for
	for _, body := range []string{"ok", "fail1", "append"} {
		ps = append(ps, Spec{Body: body, Success: true, Fail: true, Finally: true, Wrapped: true, Bound: 0},
			Spec{Body: body, Fail: true, Wrapped: true, Bound: 0})
	}
	for _, hf := range []string{"success", "fail", "finally"} {
		for _, body := range []string{"ok", "fail1"} {
			ps = append(ps, Spec{Body: body, Success: true, Fail: true, Finally: true, HandlerFails: hf, Bound: b})
		}
	}
	return ps
}

var focus = []string{"pipcommands/pipc", "pipservices/runner", "pipservices/tasks", "app/scope", "terminal/termexec", "checks/c16", "checks/pipx"}

func mkProgram(sp Spec) *explore.Program {
	o := &obs{}
	var reach []explore.ReachGoal
	if sp.HandlerFails != "" && sp.HandlerFails != "finally" && sp.Finally {
		// per execution a failing handler may cut the concurrently running finally handler short (they
		// share the surrounding context); but the failure of one handler must not make the finally
		// handler impossible: some schedule of the program has to run it
		reach = append(reach, explore.ReachGoal{Name: "finally-handler-when-" + sp.HandlerFails + "-handler-fails",
			Clause: "the finally handler runs in both cases (handlers that themselves fail)",
			Hit:    func() bool { return o.w != nil && len(o.w.EventsOf("finally.")) > 0 }})
	}
	if sp.HandlerFails == "finally" {
		want := "fail"
		if !sp.bodyFails() {
			want = "success"
		}
		reach = append(reach, explore.ReachGoal{Name: want + "-handler-when-finally-handler-fails",
			Clause: "the matching handler runs (handlers that themselves fail)",
			Hit:    func() bool { return o.w != nil && len(o.w.EventsOf(want+".")) > 0 }})
	}
	return &explore.Program{Prop: "C16", Name: sp.name(), Spec: sp, Reach: reach,
		Opt:  explore.Options{Bound: sp.Bound, Focus: focus, MaxSteps: 30000, HBR: true, HBRAuxNeutral: true, NoShard: !sp.Split, SelectCost: -1},
		Body: build(sp, o), Judge: judge(sp, o),
		Outcome: func() string {
			if o.w == nil {
				return ""
			}
			return o.w.Render()
		},
	}
}

func run(c *fw.Ctx) {
	ps := programs(c.Thorough())
	c.R.Info["programs_total"] = len(ps)
	c.R.Info["focus"] = focus
	for i, sp := range ps {
		if !sp.Split && !c.Mine(i) {
			continue
		}
		if c.Expired() {
			c.NotExhaustive("deadline")
			break
		}
		if !explore.RunProgram(c, mkProgram(sp)) && c.R.InfraError != "" {
			return
		}
		if i%11 == 3 {
			c.Sample(map[string]interface{}{"program": sp, "script": script(sp)})
		}
	}
}

func replay(wj json.RawMessage) (*fw.Violation, error) {
	var w struct {
		Spec    Spec  `json:"spec"`
		Choices []int `json:"choices"`
		Reach   string `json:"reach"`
	}
	if err := json.Unmarshal(wj, &w); err != nil {
		return nil, err
	}
	if w.Reach != "" {
		return explore.ReplayReach(mkProgram(w.Spec), w.Reach)
	}
	return explore.ReplayProgram(mkProgram(w.Spec), w.Choices)
}

func init() {
	fw.Register(&fw.Check{ID: "C16", Level: "model_checking",
		Rule: "programs = body {succeeds, fails at command 1 / 2, appends an error, names an unknown command, breaks off inside a quoted argument, stops its scope and then fails, stops its scope gracefully and returns nil (a success), kills its scope without returning an error, spawns a nested task that succeeds / fails, in the self sandbox or in a sandbox that reports failure only through its return value, or two concurrent tasks one of which fails} x every subset of {success, fail, finally} handlers x one failing handler; the script `pip:try ...` followed by another command is fed to the real terminal loop of a mock application bootstrapped per execution, probe commands log begin/end; every schedule within the bound (quick: free context switches at blocking points; thorough: 1 preemption, nested bodies free switches only) with a happens-before state cache; oracle: which handlers ran, handler begin after the end of the body and of every task it spawned, error state of the surrounding scope, the script continuing after the block, no panic, no deadlock; for programs with a failing handler additionally reachability over the explored schedule set: some schedule runs the finally handler (resp. the matching handler when finally is the failing one). states = distinct schedule traces; plus 6 programs in which the try block runs inside a named pipeline that a second pipeline waits for (a contained body failure does not make the enclosing pipeline a failed prerequisite)",
		Run: run, Replay: replay,
		Assumptions: []string{"the finally handler is submitted first; when it fails the remaining handlers are not started (the handler failure is what is reported)", "accesses to objects outside the focus packages do not order executions in the happens-before cache (declared reduction)"}})
}
