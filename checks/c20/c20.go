// Package c20 decides C20: config/translation maps survive flattening, JSON and loading.
// Engine: exhaustive bounded enumeration of nested maps, JSON documents (all leaf strings up
// to 3 symbols over an alphabet of JSON-significant characters in every spelling) and flat
// maps, with encoding/json as the reference; plus bounded-preemption schedule exploration of
// the concurrent translation loader.
package c20

import (
	"bytes"
	"encoding/json"
	"fmt"
	"github.com/goatcms/goatcore/filesystem/fsloop"
	"reflect"
	"sort"
	"strings"

	"github.com/goatcms/goatcore/filesystem/filespace/memfs"
	"github.com/goatcms/goatcore/i18n/fsi18loader"
	"github.com/goatcms/goatcore/i18n/i18mem"
	"github.com/goatcms/goatcore/varutil/plainmap"
	"github.com/goatcms/goatcore/workers"

	"verif/explore"
	"verif/fsx"
	"verif/fw"
)

var keyPool = []string{"a", "b", "é"}

// ---- A: flatten / rebuild ----

// nested enumerates all nested maps with <= maxLeaves leaves and depth <= maxDepth (no empty sub-maps).
func nested(maxDepth, maxLeaves int, f func(m map[string]interface{})) {
	// enumerate as sets of leaf paths (prefix-free, each path of length <= maxDepth)
	var paths [][]string
	var gen func(cur []string)
	gen = func(cur []string) {
		if len(cur) > 0 {
			paths = append(paths, append([]string{}, cur...))
		}
		if len(cur) == maxDepth {
			return
		}
		for _, k := range keyPool {
			gen(append(cur, k))
		}
	}
	gen(nil)
	var pick func(start int, chosen [][]string)
	pick = func(start int, chosen [][]string) {
		if len(chosen) > 0 {
			m := map[string]interface{}{}
			for i, p := range chosen {
				cur := m
				for j, k := range p {
					if j == len(p)-1 {
						cur[k] = i + 1
					} else {
						nx, ok := cur[k].(map[string]interface{})
						if !ok {
							nx = map[string]interface{}{}
							cur[k] = nx
						}
						cur = nx
					}
				}
			}
			f(m)
		}
		if len(chosen) == maxLeaves {
			return
		}
		for i := start; i < len(paths); i++ {
			ok := true
			for _, c := range chosen {
				if isPrefix(c, paths[i]) || isPrefix(paths[i], c) {
					ok = false
					break
				}
			}
			if ok {
				pick(i+1, append(append([][]string{}, chosen...), paths[i]))
			}
		}
	}
	pick(0, nil)
}

func isPrefix(a, b []string) bool {
	if len(a) > len(b) {
		return false
	}
	for i := range a {
		if a[i] != b[i] {
			return false
		}
	}
	return true
}

type finding struct{ kind, clause, detail string }

func checkNested(m map[string]interface{}) *finding {
	var f *finding
	func() {
		defer func() {
			if p := recover(); p != nil {
				f = &finding{"flatten-panic", "flattening and rebuilding never panic", fmt.Sprintf("map %v: %v", m, p)}
			}
		}()
		before := fmt.Sprint(m)
		flat, err := plainmap.RecursiveMapToPlainMap(m)
		if err != nil {
			f = &finding{"flatten-error", "flattening a nested map succeeds", fmt.Sprintf("map %v: %v", m, err)}
			return
		}
		if fmt.Sprint(m) != before {
			f = &finding{"flatten-changed-its-input", "flattening leaves the nested map unchanged", fmt.Sprintf("map was %s, is %v", before, m)}
			return
		}
		// a second call (after the first result was scribbled over) gives the same flat map
		keep := map[string]interface{}{}
		for k, v := range flat {
			keep[k] = v
		}
		for k := range flat {
			flat[k] = "#scribble#"
		}
		flat["#extra#"] = 1
		flat, err = plainmap.RecursiveMapToPlainMap(m)
		if err != nil || !reflect.DeepEqual(flat, keep) {
			f = &finding{"flatten-not-repeatable", "flattening is a function of its argument", fmt.Sprintf("map %v: first call %v, second call (after the first result was modified) %v (%v)", m, keep, flat, err)}
			return
		}
		back, err := plainmap.ToRecursiveMap(flat)
		if _, top := flat[""]; top && err != nil {
			// the rebuild functions refuse the flat key "" (a top-level leaf named "") with an explicit
			// error: a stated limit of their domain, answered with an error and never with another map
			return
		}
		if err != nil {
			f = &finding{"rebuild-error", "rebuilding a flattened map succeeds", fmt.Sprintf("map %v flat %v: %v", m, flat, err)}
			return
		}
		if !reflect.DeepEqual(back, m) {
			f = &finding{"flatten-rebuild-not-inverse", "flattening to dotted keys and rebuilding are mutually inverse", fmt.Sprintf("map %v -> flat %v -> %v", m, flat, back)}
			return
		}
		// converse: flat -> nested -> flat
		flat2, err := plainmap.RecursiveMapToPlainMap(back)
		if err != nil || !reflect.DeepEqual(flat2, flat) {
			f = &finding{"rebuild-flatten-not-inverse", "flattening to dotted keys and rebuilding are mutually inverse", fmt.Sprintf("flat %v -> %v -> %v (%v)", flat, back, flat2, err)}
			return
		}
		// string variant
		sm := map[string]string{}
		for k, v := range flat {
			sm[k] = fmt.Sprint(v)
		}
		rs, err := plainmap.StringMapToRecursiveMap(sm)
		if err != nil {
			f = &finding{"string-rebuild-error", "rebuilding a flat string map succeeds", fmt.Sprintf("flat %v: %v", sm, err)}
			return
		}
		fl3, err := plainmap.RecursiveMapToPlainMap(rs)
		if err != nil || len(fl3) != len(sm) {
			f = &finding{"string-rebuild-not-inverse", "flat -> nested -> flat is the identity", fmt.Sprintf("%v -> %v -> %v", sm, rs, fl3)}
			return
		}
		for k, v := range sm {
			if fl3[k] != v {
				f = &finding{"string-rebuild-not-inverse", "flat -> nested -> flat is the identity", fmt.Sprintf("%v -> %v -> %v", sm, rs, fl3)}
				return
			}
		}
	}()
	return f
}

// ---- B: JSON read ----

type sym struct {
	name      string
	spellings []string // JSON spellings
}

var syms = []sym{
	{"a", []string{"a"}},
	{"quote", []string{`\"`}},
	{"backslash", []string{`\\`}},
	{"slash", []string{"/", `\/`}},
	{"newline", []string{`\n`}},
	{"tab", []string{`\t`}},
	{"u0001", []string{`\u0001`}},
	{"e-acute", []string{"é", `\u00e9`}},
	{"astral", []string{"😀", `\ud83d\ude00`}}, // U+1F600: needs a surrogate pair when escaped
}

// leafTexts enumerates the JSON text of every string literal of <= n symbols (every spelling).
func leafTexts(n int, f func(text string)) {
	var rec func(cur string, left int)
	rec = func(cur string, left int) {
		f(`"` + cur + `"`)
		if left == 0 {
			return
		}
		for _, s := range syms {
			for _, sp := range s.spellings {
				rec(cur+sp, left-1)
			}
		}
	}
	rec("", n)
}

var numberLeaves = []string{"0", "-1", "1.5", "1e3"}
var skippedLeaves = []string{"true", "null", "[]", `["x"]`}

// refFlatten decodes doc with encoding/json and flattens string/number leaves.
func refFlatten(doc string) (map[string]string, error) {
	dec := json.NewDecoder(strings.NewReader(doc))
	dec.UseNumber()
	var v map[string]interface{}
	if err := dec.Decode(&v); err != nil {
		return nil, err
	}
	out := map[string]string{}
	var walk func(prefix string, m map[string]interface{})
	walk = func(prefix string, m map[string]interface{}) {
		for k, x := range m {
			key := k
			if prefix != "" {
				key = prefix + "." + k
			}
			switch t := x.(type) {
			case map[string]interface{}:
				walk(key, t)
			case string:
				out[key] = t
			case json.Number:
				out[key] = t.String()
			}
		}
	}
	walk("", v)
	return out, nil
}

func checkDoc(doc string) *finding {
	want, err := refFlatten(doc)
	if err != nil {
		return nil // not a valid document for the reference: out of the quantifier
	}
	var got map[string]string
	var perr string
	func() {
		defer func() {
			if p := recover(); p != nil {
				perr = fmt.Sprint(p)
			}
		}()
		var e error
		in := []byte(doc)
		got, e = plainmap.JSONToPlainStringMap(in)
		if e != nil {
			perr = "error: " + e.Error()
			return
		}
		if string(in) != doc {
			perr = "the input bytes were modified: " + string(in)
			return
		}
		// the result is a snapshot: wiping the caller's buffer and converting another document
		// afterwards must not change it
		for i := range in {
			in[i] = '#'
		}
		plainmap.JSONToPlainStringMap([]byte(`{"zz":{"zz":"other \"document\""},"a":"ZZZZZZZZ"}`))
	}()
	if perr != "" {
		return &finding{"json-read-failed", "reading a JSON object into a flat string map succeeds", fmt.Sprintf("document %s: %s", doc, perr)}
	}
	if len(got) != len(want) {
		return &finding{"json-read-keys", "every string or number leaf is present (other leaf kinds are skipped)", fmt.Sprintf("document %s: got keys %v want %v", doc, keysOf(got), keysOf(want))}
	}
	for k, v := range want {
		g, ok := got[k]
		if !ok {
			return &finding{"json-read-keys", "every string or number leaf is present", fmt.Sprintf("document %s: key %q missing (got %v)", doc, k, keysOf(got))}
		}
		if g != v {
			kind := "json-read-escape-not-decoded"
			if !strings.Contains(doc, `\`) {
				kind = "json-read-value"
			}
			return &finding{kind, "every string leaf yields the value a standard JSON decoder yields (escapes decoded)", fmt.Sprintf("document %s: key %q = %q, encoding/json yields %q", doc, k, g, v)}
		}
	}
	return nil
}

func keysOf(m map[string]string) []string {
	var l []string
	for k := range m {
		l = append(l, k)
	}
	sort.Strings(l)
	return l
}

// ---- C: JSON write ----

var flatKeySets = [][]string{{"a"}, {"é"}, {"a.b"}, {"a", "b"}, {"a.a", "a.b"}, {"a.b", "b"}, {"b.a.a", "b.a.b"}, {"a", "b.é"}}

func valueStrings(n int, f func(v string)) {
	// (incl. the characters that are STRUCTURE outside a JSON string: a writer or formatter that loses
	// track of "inside a string" treats them as such)
	raw := []string{"a", `"`, `\`, "/", "\n", "\t", "\x01", "é", "<", "\u2028", "😀", "\U00010000", "\uffff", "\x7f", ",", ":", "{", "}", "[", " "}
	var rec func(cur string, left int)
	rec = func(cur string, left int) {
		f(cur)
		if left == 0 {
			return
		}
		for _, s := range raw {
			rec(cur+s, left-1)
		}
	}
	rec("", n)
}

func checkWrite(m map[string]string) *finding {
	for _, variant := range []string{"compact", "formatted"} {
		var text string
		var err error
		var perr string
		func() {
			defer func() {
				if p := recover(); p != nil {
					perr = fmt.Sprint(p)
				}
			}()
			if variant == "compact" {
				text, err = plainmap.PlainStringMapToJSON(m)
			} else {
				text, err = plainmap.PlainStringMapToFormattedJSON(m)
			}
		}()
		if perr != "" || err != nil {
			return &finding{"json-write-failed/" + variant, "writing a flat map as JSON succeeds", fmt.Sprintf("map %q: %v %s", m, err, perr)}
		}
		if !json.Valid([]byte(text)) {
			return &finding{"json-write-invalid/" + variant, "the written text is valid JSON", fmt.Sprintf("map %q written as %q, which encoding/json rejects", m, text)}
		}
		ref, rerr := refFlatten(text)
		if rerr != nil || !reflect.DeepEqual(ref, m) {
			return &finding{"json-write-wrong-value/" + variant, "the written JSON denotes the same map", fmt.Sprintf("map %q written as %q, which denotes %q (%v)", m, text, ref, rerr)}
		}
		back, berr := plainmap.JSONToPlainStringMap([]byte(text))
		if berr != nil || !reflect.DeepEqual(back, m) {
			return &finding{"json-roundtrip/" + variant, "writing a flat map as JSON and reading it back returns the same map", fmt.Sprintf("map %q -> %q -> %q (%v)", m, text, back, berr)}
		}
	}
	return nil
}

// ---- D: loader ----

type layout struct {
	Name   string            `json:"name"`
	Files  map[string]string `json:"files"` // path -> JSON text
	MaxJob int               `json:"maxjob"`
	Bound  int               `json:"bound"`
	Base   string            `json:"base,omitempty"` // directory handed to Load ("" = the filespace root)
	// ChanSize: capacity of the walker's queues (0 = the library's 1000): "whatever the number of files" -
	// a directory with more entries than the queues hold, scaled down
	ChanSize int `json:"queue_capacity,omitempty"`
}

func layouts(thorough bool) []layout {
	b := 1
	if thorough {
		b = 2
	}
	var out []layout
	bigDoc := func(prefix string, n int) string {
		var l []string
		for i := 0; i < n; i++ {
			l = append(l, fmt.Sprintf("%q:%q", fmt.Sprintf("%s%d", prefix, i), fmt.Sprintf("V%s%d", prefix, i)))
		}
		return "{" + strings.Join(l, ",") + "}"
	}
	// files of very different sizes (size-dependent code paths in the store)
	out = append(out,
		layout{"big-and-small", map[string]string{"big.json": bigDoc("b", 40), "small.json": `{"s":"S"}`}, 2, b, "", 0},
		layout{"two-big", map[string]string{"x.json": bigDoc("x", 17), "y.json": bigDoc("y", 33)}, 2, b, "", 0},
	)
	for _, mj := range []int{1, 2} {
		out = append(out,
			layout{"one-file", map[string]string{"en.json": `{"a":"A","n":{"x":"NX"}}`}, mj, b + 1, "", 0},
			layout{"two-files", map[string]string{"en.json": `{"a":"A"}`, "pl.json": `{"b":"B","c":{"d":"CD"}}`}, mj, b, "", 0},
			layout{"three-files-two-dirs", map[string]string{"en.json": `{"a":"A"}`, "d/pl.json": `{"b":"B"}`, "d/de.json": `{"c":"C"}`, "d/readme.txt": "not json"}, mj, b, "", 0},
			layout{"nested-dir", map[string]string{"x/y/z.json": `{"deep":"D"}`, "top.json": `{"t":"T"}`}, mj, b, "", 0},
		)
	}
	// the loaded directory is a sub-directory (three spellings); values with every kind of escape; files
	// whose names merely contain ".json" hold other values for the same keys and must not be loaded
	esc := `{"q":"a\"b","u":"\u00e9","sl":"a\/b","sp":"\ud83d\ude00","nl":"x\ny","deep":{"er":{"k":"v"}}}`
	// (the walk joins base and name textually, so the base is spelled with its trailing slash; a base
	// without it makes Load fail loudly - outside the statement's quantifier, noted in DESIGN.md)
	for _, base := range []string{"lang/", "./lang/", "lang/sub/"} {
		pre := strings.TrimPrefix(base, "./")
		out = append(out, layout{Name: "subdir-" + base, Files: map[string]string{pre + "en.json": `{"a":"A","n":{"x":"NX"}}`, pre + "more/pl.json": esc, pre + "en.json.bak": `{"a":"WRONG"}`, pre + "notes.jsonl": `{"a":"WRONG2"}`}, MaxJob: 2, Bound: 0, Base: base})
	}
	// more files in one directory than the walker's queues hold (queue capacity scaled down to 2)
	many := map[string]string{}
	for i := 0; i < 3; i++ {
		many[fmt.Sprintf("f%d.json", i)] = fmt.Sprintf(`{"k%d":"V%d"}`, i, i)
	}
	out = append(out, layout{Name: "more-files-than-queue-capacity", Files: many, MaxJob: 2, Bound: 0, ChanSize: 1})
	out = append(out, layout{Name: "escapes", Files: map[string]string{"e.json": esc, "z.json": `{"zz":"Z"}`}, MaxJob: 1, Bound: 1})
	return out
}

type loadObs struct {
	err     string
	missing []string
	wrong   []string
}

func loaderBody(l layout, o *loadObs) func() {
	return func() {
		*o = loadObs{}
		workers.MaxJob = l.MaxJob
		fsloop.ChanSize = 1000
		if l.ChanSize > 0 {
			fsloop.ChanSize = l.ChanSize
		}
		fs, _ := memfs.NewFilespace()
		var ps []string
		for p := range l.Files {
			ps = append(ps, p)
		}
		sort.Strings(ps)
		want := map[string]string{}
		for _, p := range ps {
			fs.WriteFile(p, []byte(l.Files[p]), 0644)
			if strings.HasSuffix(p, ".json") {
				m, _ := refFlatten(l.Files[p])
				for k, v := range m {
					want[k] = v
				}
			}
		}
		i18 := i18mem.NewI18N()
		if err := fsi18loader.Load(fs, l.Base, i18, nil); err != nil {
			o.err = err.Error()
		}
		var ks []string
		for k := range want {
			ks = append(ks, k)
		}
		sort.Strings(ks)
		for _, k := range ks {
			got, err := i18.Translate(k)
			if err != nil {
				o.missing = append(o.missing, k)
			} else if got != want[k] {
				o.wrong = append(o.wrong, fmt.Sprintf("%s=%q want %q", k, got, want[k]))
			}
		}
	}
}

func judgeLoad(o *loadObs, x *explore.Exec) (string, string) {
	if len(x.Res.Panics) > 0 {
		return "loader-panic", x.Res.Panics[0].Value + "\n" + x.Res.Panics[0].Stack
	}
	if x.Res.Deadlock || x.Res.Horizon {
		return "loader-blocks", fmt.Sprint(x.Res.Blocked)
	}
	if o.err != "" {
		return "loader-error", "Load returned " + o.err
	}
	if len(o.missing) > 0 {
		return "loader-lost-keys", fmt.Sprintf("Load returned nil but keys %v cannot be translated", o.missing)
	}
	if len(o.wrong) > 0 {
		return "loader-wrong-value", strings.Join(o.wrong, "; ")
	}
	// unordered conflicting accesses to multi-word values of the loader / translation store (a local
	// hoisted out of the per-file callback is shared by all consumer goroutines)
	for _, rc := range x.Res.Races {
		if strings.Contains(rc.First, "i18n/") && strings.Contains(rc.Second, "i18n/") {
			return "loader-race", fmt.Sprintf("%s race: %s <-> %s (unordered by happens-before in this schedule)", rc.Kind, rc.First, rc.Second)
		}
	}
	return "", ""
}

type witness struct {
	Nested map[string]interface{} `json:"nested,omitempty"`
	Doc    string                 `json:"doc,omitempty"`
	Flat   map[string]string      `json:"flat,omitempty"`
	Layout *layout                `json:"layout,omitempty"`
	Sched  []int                  `json:"schedule,omitempty"`
	Reload *reloadCase            `json:"reload_case,omitempty"`
}

var loadFocus = []string{"filesystem/fsloop", "workers/jobsync", "i18n/"}

func run(c *fw.Ctx) {
	report := func(f *finding, w witness) {
		sg := "C20/" + f.kind
		if c.Violated(sg) {
			c.Violate(&fw.Violation{Signature: sg})
			return
		}
		c.Violate(&fw.Violation{Property: "C20", Clause: f.clause, Signature: sg, Detail: f.detail, Witness: fw.JSON(w)})
	}
	item := 0
	// A
	maxLeaves := 3
	if c.Thorough() {
		maxLeaves = 4
	}
	nested(3, maxLeaves, func(m map[string]interface{}) {
		item++
		if !c.Mine(item) {
			return
		}
		c.R.Evaluations++
		c.Count("nested_maps", 1)
		if f := checkNested(m); f != nil {
			report(f, witness{Nested: m})
		}
	})
	// A1b: the empty string as a key (dot-free like any other) at every level, next to a plain key
	savedPool := keyPool
	keyPool = []string{"", "a"}
	nested(3, maxLeaves, func(m map[string]interface{}) {
		item++
		if !c.Mine(item) {
			return
		}
		c.R.Evaluations++
		c.Count("nested_maps_with_empty_keys", 1)
		if f := checkNested(m); f != nil {
			report(f, witness{Nested: m})
		}
	})
	keyPool = savedPool
	// A2: deep maps - a spine of depth 1..12 with 1-3 sibling leaves at the bottom, with and without a
	// side leaf at every level (depth-dependent behaviour: slice growth, recursion, key joining)
	maxSpine := 12
	if c.Thorough() {
		maxSpine = 20
	}
	c.R.Info["deep_map_max_depth"] = maxSpine
	for d := 1; d <= maxSpine; d++ {
		for sibs := 1; sibs <= 3; sibs++ {
			for _, comb := range []bool{false, true} {
				for _, spineKey := range []string{"a", "é"} {
					item++
					if !c.Mine(item) {
						continue
					}
					m := map[string]interface{}{}
					cur := m
					for lvl := 1; lvl < d; lvl++ {
						if comb {
							cur["b"] = lvl
						}
						nx := map[string]interface{}{}
						cur[spineKey] = nx
						cur = nx
					}
					for i, k := range keyPool[:sibs] {
						cur[k] = 100 + i
					}
					c.R.Evaluations++
					c.Count("deep_nested_maps", 1)
					if f := checkNested(m); f != nil {
						report(f, witness{Nested: m})
					}
				}
			}
		}
	}
	// B
	nsym := 2
	if c.Thorough() {
		nsym = 3
	}
	shapes := []func(leaf string) string{
		func(l string) string { return `{"k":` + l + `}` },
		func(l string) string { return `{"a":{"b":` + l + `},"é":"x"}` },
		func(l string) string {
			return `{ "a" : { "b" : { "c" : ` + l + ` } , "t": true, "n": null, "l": [1,"s"] } }`
		},
		func(l string) string { return `{"x":1.5,"a":{"a":` + l + `,"b":-1},"z":[]}` },
	}
	leafTexts(nsym, func(text string) {
		item++
		if !c.Mine(item) {
			return
		}
		for _, sh := range shapes {
			doc := sh(text)
			c.R.Evaluations++
			c.Count("json_documents", 1)
			if f := checkDoc(doc); f != nil {
				report(f, witness{Doc: doc})
			}
		}
	})
	// every number literal of <= 5 (thorough 6) characters over {0,1,-,+,.,e,E} that the JSON grammar allows
	if c.Mine(6000001) {
		maxNum := 5
		if c.Thorough() {
			maxNum = 6
		}
		var gen func(cur string)
		gen = func(cur string) {
			if cur != "" && json.Valid([]byte(cur)) {
				c.R.Evaluations++
				c.Count("number_literals", 1)
				for _, sh := range shapes[:2] {
					if f := checkDoc(sh(cur)); f != nil {
						report(f, witness{Doc: sh(cur)})
					}
				}
			}
			if len(cur) == maxNum {
				return
			}
			for _, ch := range "01-+.eE" {
				gen(cur + string(ch))
			}
		}
		gen("")
	}
	for _, l := range append(append([]string{}, numberLeaves...), skippedLeaves...) {
		for _, sh := range shapes {
			c.R.Evaluations++
			if c.Shard == 0 {
				if f := checkDoc(sh(l)); f != nil {
					report(f, witness{Doc: sh(l)})
				}
			}
		}
	}
	// C
	valueStrings(nsym, func(v string) {
		item++
		if !c.Mine(item) {
			return
		}
		for _, ks := range flatKeySets {
			m := map[string]string{}
			for i, k := range ks {
				if i == 0 {
					m[k] = v
				} else {
					m[k] = "w" + v
				}
			}
			c.R.Evaluations++
			c.Count("flat_maps_written", 1)
			if f := checkWrite(m); f != nil {
				report(f, witness{Flat: m})
			}
		}
	})
	// C2: every prefix-free key set of <= 3 (quick) / <= 4 (thorough) keys from all paths of depth <= 2
	// over segments that are prefixes of one another / sort around the separator
	segs := []string{"s", "s1", "s10", "s-", "é"}
	var allKeys []string
	for _, a := range segs {
		allKeys = append(allKeys, a)
		for _, b := range segs {
			allKeys = append(allKeys, a+"."+b)
		}
	}
	maxKeys := 3
	if c.Thorough() {
		maxKeys = 4
	}
	c.R.Info["key_segments"] = segs
	c.R.Info["max_keys_per_set"] = maxKeys
	prefixFree := func(ks []string) bool {
		for _, a := range ks {
			for _, b := range ks {
				if a != b && strings.HasPrefix(b, a+".") {
					return false
				}
			}
		}
		return true
	}
	var pick func(start int, cur []string)
	pick = func(start int, cur []string) {
		if len(cur) > 0 {
			item++
			if c.Mine(item) && prefixFree(cur) {
				m := map[string]string{}
				for i, k := range cur {
					m[k] = fmt.Sprintf("v%d\"", i)
				}
				c.R.Evaluations++
				c.Count("flat_key_sets_written", 1)
				if f := checkWrite(m); f != nil {
					report(f, witness{Flat: m})
				}
			}
		}
		if len(cur) == maxKeys {
			return
		}
		for i := start; i < len(allKeys); i++ {
			pick(i+1, append(append([]string{}, cur...), allKeys[i]))
		}
	}
	pick(0, nil)
	// D
	for _, l := range layouts(c.Thorough()) {
		l := l
		var o loadObs
		opt := explore.Options{Bound: l.Bound, Focus: loadFocus, Race: true, Shard: c.Shard, Shards: c.Shards, Deadline: c.Deadline, MaxSteps: 6000}
		body := loaderBody(l, &o)
		st, err := explore.Explore(opt, body, func(x *explore.Exec) bool {
			if kind, detail := judgeLoad(&o, x); kind != "" {
				report(&finding{kind, "loading a directory of translation files makes every key of every file translatable, whatever the scheduling", fmt.Sprintf("layout %+v schedule %v: %s", l, x.Choices, detail)}, witness{Layout: &l, Sched: x.Choices})
			}
			return true
		})
		if err != nil {
			c.Infra("loader %s: %v", l.Name, err)
			return
		}
		c.R.Evaluations += st.Execs
		c.Count("loader_schedules", st.Execs)
		c.Max("loader_bound", int64(l.Bound))
		if st.Capped {
			c.NotExhaustive("loader exploration capped")
		}
	}
	c.R.Distinct = c.R.Evaluations
	c.Sample(map[string]interface{}{"json_document": `{"a":{"b":"\"\\é\/"},"é":"x"}`, "reference": "encoding/json with UseNumber"})
	// reloads into a store that changed in between
	if c.Mine(6000002) {
		for _, rc := range reloadCases() {
			c.R.Evaluations++
			c.Count("reload_sequences", 1)
			if f := runReload(rc); f != nil {
				report(f, witness{Reload: &rc})
			}
		}
	}
	c.Sample(map[string]interface{}{"flat_map_written": map[string]string{"a.b": "\\\n\"", "b": "w"}})
}

func replay(wj json.RawMessage) (*fw.Violation, error) {
	var w witness
	if err := json.Unmarshal(wj, &w); err != nil {
		return nil, err
	}
	var f *finding
	switch {
	case w.Reload != nil:
		f = runReload(*w.Reload)
	case w.Nested != nil:
		// JSON round trip turns ints into float64: rebuild ints
		var fix func(m map[string]interface{})
		fix = func(m map[string]interface{}) {
			for k, v := range m {
				switch t := v.(type) {
				case float64:
					m[k] = int(t)
				case map[string]interface{}:
					fix(t)
				}
			}
		}
		fix(w.Nested)
		f = checkNested(w.Nested)
	case w.Doc != "":
		f = checkDoc(w.Doc)
	case w.Flat != nil:
		f = checkWrite(w.Flat)
	case w.Layout != nil:
		var o loadObs
		opt := explore.Options{Bound: -1, Focus: loadFocus, MaxSteps: 6000}
		x, err := explore.RunOnce(&opt, w.Sched, loaderBody(*w.Layout, &o))
		if err != nil {
			return nil, err
		}
		if kind, detail := judgeLoad(&o, x); kind != "" {
			f = &finding{kind, "loader", detail}
		}
	}
	if f == nil {
		return nil, nil
	}
	return &fw.Violation{Property: "C20", Clause: f.clause, Signature: "C20/" + f.kind, Detail: f.detail}, nil
}

var _ = bytes.Contains

func init() {
	fw.Register(&fw.Check{ID: "C20", Level: "exploration",
		Rule: "all nested maps over keys {a,b,é}, and over {'' (the empty string), a}, with depth<=3 and <=3 (quick) / <=4 (thorough) leaves (the flat key '' alone is refused by the rebuild functions with an explicit error, which is accepted), plus deep maps (spine of depth 1..12 / 1..20 with 1-3 sibling leaves at the bottom, with and without a side leaf per level) (flatten/rebuild both ways, string variant); all JSON documents of 4 nested-object shapes whose string leaf ranges over every string of <=2 (quick) / <=3 (thorough) symbols from {a, quote, backslash, slash, newline, tab, U+0001, é, U+1F600} in every JSON spelling (incl. surrogate pairs) (raw and escaped), plus every number literal of <=5 (thorough 6) characters over {0,1,-,+,.,e,E} that the JSON grammar allows, and true/null/array leaves, compared with encoding/json (UseNumber); all flat maps from 8 prefix-free key sets x every value string of <=2/3 symbols from {a, quote, backslash, slash, newline, tab, 0x01, é, '<', U+2028, U+1F600, U+10000, U+FFFF, 0x7f, comma, colon, braces, bracket, blank} written compact and formatted (valid for encoding/json, same map, round trip); plus EVERY prefix-free set of <=3/<=4 keys from all 30 paths of depth <=2 over the segments {s, s1, s10, s-, é} (names that are prefixes of one another or sort around the separator); translation loader on 15 directory layouts (1-4 files, one of them with more files in one directory than the walker's queues hold - queue capacity scaled down to 1; 1-40 keys per file; sub-directories as the loaded base in three spellings; escaped values; look-alike file names that must not be loaded) under every schedule with <= bound preemptions, plus 5 sequences of loads into ONE store (base, theme with overlapping keys, direct Set in between, the same unchanged directory twice): after the last Load every key of its files translates to the file's value; with the race oracle on the loader's and the store's multi-word variables (incl. variables captured by the per-file callback). distinct = inputs/schedules",
		Run:  run, Replay: replay,
		Assumptions: []string{"encoding/json is the reference JSON decoder", "loader values are %-free (Translate is a format API)", "2-3 preemptions, MaxJob 1-2 for the loader"}})
}

// ---- reload: a directory loaded again into a store that changed in between ----

// reloadCase: Load(first...) in order into ONE store; after the LAST Load has returned nil, every key of
// every file of the directory loaded last translates to that file's value - whatever was loaded or set
// before (also: the very same directory, unchanged on disk, loaded a second time).
type reloadCase struct {
	Name  string   `json:"reload"`
	Loads []string `json:"loads"` // base directories, in order ("set:<k>=<v>" = a direct Set, "probe:<k>" = a Translate in between)
}

var reloadFiles = map[string]string{
	"base/en.json":     `{"title":"Base title","menu":{"home":"Home","exit":"Exit"}}`,
	"base/sub/pl.json": `{"pl":{"menu":{"exit":"Wyjscie"}}}`,
	"theme/en.json":    `{"title":"Theme title","menu":{"home":"Theme home"}}`,
	"theme/extra.json": `{"only":{"theme":"T"}}`,
}

func reloadCases() []reloadCase {
	return []reloadCase{
		{"base-theme-base", []string{"base/", "theme/", "base/"}},
		{"theme-base-theme", []string{"theme/", "base/", "theme/"}},
		{"base-set-base", []string{"base/", "set:title=Changed by hand", "set:pl.menu.exit=X", "base/"}},
		{"base-base", []string{"base/", "base/"}},
		{"base-theme-base-theme", []string{"base/", "theme/", "base/", "theme/"}},
		// keys asked for BEFORE the load that brings them (a page rendered early): the answers of then say
		// nothing about the store after the load
		{"probe-base", []string{"probe:title", "probe:menu.home", "probe:pl.menu.exit", "probe:menu", "base/"}},
		{"base-probe-theme", []string{"base/", "probe:only.theme", "probe:title", "probe:menu.exit", "theme/"}},
	}
}

func runReload(rc reloadCase) (f *finding) {
	var detail string
	res := fsx.RunSeq(func() {
		workers.MaxJob = 2
		fsloop.ChanSize = 1000
		fs, _ := memfs.NewFilespace()
		var ps []string
		for p := range reloadFiles {
			ps = append(ps, p)
		}
		sort.Strings(ps)
		for _, p := range ps {
			fs.WriteFile(p, []byte(reloadFiles[p]), 0644)
		}
		i18 := i18mem.NewI18N()
		last := ""
		for _, l := range rc.Loads {
			if strings.HasPrefix(l, "set:") {
				kv := strings.SplitN(strings.TrimPrefix(l, "set:"), "=", 2)
				i18.Set(map[string]string{kv[0]: kv[1]})
				continue
			}
			if strings.HasPrefix(l, "probe:") {
				k := strings.TrimPrefix(l, "probe:")
				i18.Translate(k)
				i18.Translate(k, "arg")
				continue
			}
			if err := fsi18loader.Load(fs, l, i18, nil); err != nil {
				detail = fmt.Sprintf("Load(%q) failed: %v", l, err)
				return
			}
			last = l
		}
		for _, p := range ps {
			if !strings.HasPrefix(p, last) {
				continue
			}
			want, _ := refFlatten(reloadFiles[p])
			var ks []string
			for k := range want {
				ks = append(ks, k)
			}
			sort.Strings(ks)
			for _, k := range ks {
				got, err := i18.Translate(k)
				if err != nil || got != want[k] {
					detail = fmt.Sprintf("sequence %v on one store: after the last Load(%q) returned nil, key %q of %s translates to %q (err %v), the file says %q", rc.Loads, last, k, p, got, err, want[k])
					return
				}
			}
		}
	})
	if detail == "" && (res.Deadlock || res.Horizon) {
		detail = fmt.Sprintf("sequence %v: blocked: %v", rc.Loads, res.Blocked)
	}
	if detail == "" && len(res.Panics) > 0 {
		detail = "panic: " + res.Panics[0].Value
	}
	if detail == "" {
		return nil
	}
	return &finding{"loader-reload-stale", "loading a directory of translation files makes every key of every file translatable to its value", detail}
}
