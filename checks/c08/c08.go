// Package c08 decides C08: the concurrent tree walk (fsloop) calls every callback exactly
// once, respects the consumer limit, and Wait returns only after the last callback.
// Engine: deviation-bounded exhaustive schedule exploration of the real fsloop/jobsync code.
package c08

import (
	"encoding/json"
	"errors"
	"fmt"
	"github.com/goatcms/goatcore/app"
	"github.com/goatcms/goatcore/app/scope/eventscope"
	"os"
	"sort"
	"strings"

	"github.com/goatcms/goatcore/filesystem"
	"github.com/goatcms/goatcore/filesystem/filespace/memfs"
	"github.com/goatcms/goatcore/filesystem/fsloop"
	"github.com/goatcms/goatcore/workers"
	"github.com/goatcms/goatcore/zzverif/vsched"

	"verif/explore"
	"verif/fw"
)

// Program is one closed walk scenario.
type Program struct {
	Name      string   `json:"name"`
	Files     []string `json:"files"`
	Dirs      []string `json:"dirs"`   // extra (possibly empty) directories
	Filter    string   `json:"filter"` // none | rejectd | filesonly
	Producers int      `json:"producers"`
	Consumers int      `json:"consumers"`
	MaxJob    int      `json:"maxjob"`
	ChanSize  int      `json:"chansize"`
	FailCB    string   `json:"failcb"`   // path whose callback fails ("" = none)
	FailList  string   `json:"faillist"` // directory whose listing fails ("" = none)
	FailGone  bool     `json:"faillist_gone,omitempty"` // ... because it vanished after its parent was listed (IsDir false)
	// KillAt / KillEvent: the loop is bound to an event scope, and the callback of this path fires Kill
	// (or Error) on that scope - the walk is interrupted from outside, no callback or listing fails
	KillAt    string `json:"kill_at,omitempty"`
	KillEvent string `json:"kill_event,omitempty"` // kill | error
	Bound     int    `json:"bound"`
}

type witness struct {
	Program Program `json:"program"`
	Choices []int   `json:"choices"`
}

type obs struct {
	files, dirs     []string
	running, maxRun int
	afterWait       int // callbacks that began or were still running after Wait returned
	waitReturned    bool
	errs            []string
	done            bool
}

var errInjected = errors.New("injected-callback-error")
var errListing = errors.New("injected-listing-error")

type fsAlias = filesystem.Filespace

type failingFS struct {
	fsAlias
	failDir string
	gone    bool // the directory has vanished: besides the failing listing, IsDir / IsExist answer false
}

func (f *failingFS) isFailDir(p string) bool {
	return strings.TrimSuffix(strings.TrimPrefix(p, "./"), "/") == f.failDir
}

func (f *failingFS) IsDir(p string) bool {
	if f.gone && f.isFailDir(p) {
		return false
	}
	return f.fsAlias.IsDir(p)
}

func (f *failingFS) IsExist(p string) bool {
	if f.gone && f.isFailDir(p) {
		return false
	}
	return f.fsAlias.IsExist(p)
}

func (f *failingFS) ReadDir(p string) (r []os.FileInfo, err error) {
	if strings.TrimSuffix(strings.TrimPrefix(p, "./"), "/") == f.failDir {
		return nil, errListing
	}
	return f.fsAlias.ReadDir(p)
}

func body(p Program, o *obs) func() {
	return func() {
		*o = obs{}
		fsloop.ChanSize = p.ChanSize
		workers.MaxJob = p.MaxJob
		fs, _ := memfs.NewFilespace()
		for _, d := range p.Dirs {
			fs.MkdirAll(d, 0777)
		}
		for _, f := range p.Files {
			fs.WriteFile(f, []byte("x"), 0644)
		}
		var walked filesystem.Filespace = fs
		if p.FailList != "" {
			walked = &failingFS{fsAlias: fs, failDir: p.FailList, gone: p.FailGone}
		}
		cb := func(list *[]string) filesystem.LoopOn {
			return func(_ filesystem.Filespace, sub string) error {
				vsched.Note("cb-begin") // harness observations are ordered events for the happens-before cache
				if o.waitReturned {
					o.afterWait++
				}
				o.running++
				if o.running > o.maxRun {
					o.maxRun = o.running
				}
				*list = append(*list, sub)
				vsched.Point("callback")
				vsched.Note("cb-end")
				o.running--
				if o.waitReturned {
					o.afterWait++
				}
				if p.FailCB != "" && sub == p.FailCB {
					return errInjected
				}
				return nil
			}
		}
		ld := &fsloop.LoopData{Filespace: walked, OnFile: cb(&o.files), OnDir: cb(&o.dirs), Consumers: p.Consumers, Producents: p.Producers}
		switch p.Filter {
		case "rejectd":
			ld.DirFilter = func(_ filesystem.Filespace, sub string) bool { return !strings.HasSuffix(sub, "/d") && sub != "./d" }
		case "rejectd-filesonly":
			// a directory filter WITHOUT a directory callback: rejected directories are still not entered
			ld.DirFilter = func(_ filesystem.Filespace, sub string) bool { return !strings.HasSuffix(sub, "/d") && sub != "./d" }
			ld.OnDir = nil
		case "rejectd-dirsonly":
			ld.DirFilter = func(_ filesystem.Filespace, sub string) bool { return !strings.HasSuffix(sub, "/d") && sub != "./d" }
			ld.OnFile = nil
		case "filesonly":
			ld.OnDir = nil
		case "nofileb":
			ld.FileFilter = func(_ filesystem.Filespace, sub string) bool { return !strings.HasSuffix(sub, "b") }
		}
		var evs app.EventScope
		if p.KillAt != "" {
			evs = eventscope.New()
			inner := ld.OnFile
			ld.OnFile = func(f filesystem.Filespace, sub string) error {
				if sub == p.KillAt {
					if p.KillEvent == "error" {
						evs.Trigger(app.ErrorEvent, nil)
					} else {
						evs.Trigger(app.KillEvent, nil)
					}
				}
				return inner(f, sub)
			}
		}
		loop := fsloop.NewLoop(ld, evs)
		loop.Run("")
		loop.Wait()
		vsched.Note("wait-returned")
		o.waitReturned = true
		if o.running != 0 {
			o.afterWait += o.running
		}
		for _, e := range loop.Errors() {
			o.errs = append(o.errs, e.Error())
		}
		o.done = true
	}
}

// expected computes the filtered tree.
func expected(p Program) (files, dirs []string) {
	dset := map[string]bool{}
	accept := func(path string) bool { // every ancestor dir accepted
		parts := strings.Split(path, "/")
		for i := 1; i < len(parts); i++ {
			if strings.HasPrefix(p.Filter, "rejectd") && parts[i-1] == "d" {
				return false
			}
		}
		return true
	}
	addDirs := func(path string, self bool) {
		parts := strings.Split(path, "/")
		n := len(parts) - 1
		if self {
			n = len(parts)
		}
		for i := 1; i <= n; i++ {
			dset[strings.Join(parts[:i], "/")] = true
		}
	}
	for _, f := range p.Files {
		addDirs(f, false)
		if accept(f) && !(p.Filter == "nofileb" && strings.HasSuffix(f, "b")) {
			files = append(files, "./"+f)
		}
	}
	for _, d := range p.Dirs {
		addDirs(d, true)
	}
	if p.Filter != "filesonly" && p.Filter != "rejectd-filesonly" {
		for d := range dset {
			if accept(d) && !(strings.HasPrefix(p.Filter, "rejectd") && (d == "d" || strings.HasSuffix(d, "/d"))) {
				dirs = append(dirs, "./"+d)
			}
		}
	}
	if p.Filter == "rejectd-dirsonly" {
		files = nil
	}
	sort.Strings(files)
	sort.Strings(dirs)
	return
}

func sorted(l []string) []string {
	c := append([]string{}, l...)
	sort.Strings(c)
	return c
}

// judge evaluates the oracle on one execution.
func judge(p Program, o *obs, x *explore.Exec) (clause, sig, detail string) {
	res := x.Res
	if len(res.Panics) > 0 {
		return "no panic", "C08/panic/" + firstLine(res.Panics[0].Value), fmt.Sprintf("panic: %s\n%s", res.Panics[0].Value, res.Panics[0].Stack)
	}
	if res.Horizon {
		return "waiting on the loop returns", "C08/livelock", fmt.Sprintf("no quiescence within %d steps", res.Steps)
	}
	if res.Deadlock || !o.done {
		return "waiting on the loop returns", "C08/deadlock", fmt.Sprintf("harness thread never finished; blocked: %v", res.Blocked)
	}
	if o.maxRun > p.effConsumers() {
		return "never more callbacks at once than consumers", "C08/too-many-concurrent-callbacks", fmt.Sprintf("%d callbacks ran concurrently, consumer limit %d", o.maxRun, p.effConsumers())
	}
	if o.afterWait != 0 {
		return "Wait returns only after the last callback returned", "C08/callback-after-wait", fmt.Sprintf("%d callback events after Wait returned", o.afterWait)
	}
	injected := p.FailCB != "" || p.FailList != ""
	if injected {
		want := errInjected.Error()
		if p.FailList != "" {
			want = errListing.Error()
		}
		// was the failing callback reached at all?
		reached := p.FailList != ""
		for _, s := range append(append([]string{}, o.files...), o.dirs...) {
			if s == p.FailCB {
				reached = true
			}
		}
		if reached {
			found := false
			for _, e := range o.errs {
				if strings.Contains(e, want) {
					found = true
				}
			}
			if !found {
				return "a callback or listing error always appears in the error list", "C08/error-lost", fmt.Sprintf("injected error %q missing from Errors()=%v", want, o.errs)
			}
		}
		// with an error the walk may be cut short, but nothing may repeat
		if d := dup(o.files); d != "" {
			return "exactly once", "C08/file-repeated", "file callback repeated for " + d
		}
		if d := dup(o.dirs); d != "" {
			return "exactly once", "C08/dir-repeated", "dir callback repeated for " + d
		}
		return "", "", ""
	}
	if p.KillAt != "" && len(o.errs) != 0 {
		// interrupted through its scope and saying so: the walk may be cut short, nothing may repeat
		if d := dup(o.files); d != "" {
			return "exactly once", "C08/file-repeated", "file callback repeated for " + d
		}
		if d := dup(o.dirs); d != "" {
			return "exactly once", "C08/dir-repeated", "dir callback repeated for " + d
		}
		return "", "", ""
	}
	wf, wd := expected(p)
	gf, gd := sorted(o.files), sorted(o.dirs)
	if len(o.errs) != 0 {
		return "no error without a failing callback", "C08/spurious-error", fmt.Sprintf("Errors()=%v", o.errs)
	}
	if strings.Join(wf, ",") != strings.Join(gf, ",") {
		kind := "C08/file-skipped"
		if len(gf) > len(wf) || dup(o.files) != "" {
			kind = "C08/file-repeated-or-extra"
		}
		return "file callback exactly once per selected file", kind, fmt.Sprintf("expected files %v, callbacks got %v", wf, gf)
	}
	if strings.Join(wd, ",") != strings.Join(gd, ",") {
		kind := "C08/dir-skipped"
		if len(gd) > len(wd) || dup(o.dirs) != "" {
			kind = "C08/dir-repeated-or-extra"
		}
		return "dir callback exactly once per accepted directory", kind, fmt.Sprintf("expected dirs %v, callbacks got %v", wd, gd)
	}
	return "", "", ""
}

func (p Program) effConsumers() int {
	c := p.Consumers
	if c == 0 || c > p.MaxJob {
		c = p.MaxJob
	}
	return c
}

func dup(l []string) string {
	seen := map[string]bool{}
	for _, s := range l {
		if seen[s] {
			return s
		}
		seen[s] = true
	}
	return ""
}

func firstLine(s string) string {
	if i := strings.IndexByte(s, '\n'); i >= 0 {
		s = s[:i]
	}
	if len(s) > 80 {
		s = s[:80]
	}
	return s
}

func programs(thorough bool) []Program {
	var ps []Program
	trees := []struct {
		name  string
		files []string
		dirs  []string
	}{
		{"empty", nil, nil},
		{"one", []string{"a"}, nil},
		{"a+d/b", []string{"a", "d/b"}, nil},
		{"deep", []string{"d/e/f"}, nil},
		{"wide3", []string{"a", "b", "c"}, nil},
		{"emptydir", []string{"a"}, []string{"d"}},
		// names that begin with a dot (only the entries "." and ".." themselves are not nodes)
		{"dotnames", []string{".h", "d/.k", ".c/x"}, nil},
	}
	add := func(p Program) { ps = append(ps, p) }
	for _, t := range trees {
		for _, pc := range [][2]int{{1, 1}, {1, 2}, {2, 1}, {2, 2}} {
			b := 1
			if pc == [2]int{1, 1} {
				b = 2
			}
			if thorough {
				b = 2
				if t.name == "one" && pc == [2]int{1, 1} {
					b = 3
				}
			}
			add(Program{Name: t.name, Files: t.files, Dirs: t.dirs, Filter: "none", Producers: pc[0], Consumers: pc[1], MaxJob: 2, ChanSize: 1000, Bound: b})
		}
	}
	base := Program{Files: []string{"a", "d/b"}, Producers: 1, Consumers: 1, MaxJob: 2, ChanSize: 1000, Bound: 1}
	if thorough {
		base.Bound = 2
	}
	for _, f := range []string{"rejectd", "filesonly", "nofileb", "rejectd-filesonly", "rejectd-dirsonly"} {
		p := base
		p.Name, p.Filter = "filter-"+f, f
		add(p)
		p.Consumers, p.Producers = 2, 2
		add(p)
	}
	// failing callback / failing listing
	p := base
	p.Name, p.Filter, p.FailCB = "failcb-file", "none", "./a"
	add(p)
	p.Consumers = 2
	add(p)
	p = base
	p.Name, p.Filter, p.FailCB = "failcb-dir", "none", "./d"
	add(p)
	p = base
	p.Name, p.Filter, p.FailList = "faillist", "none", "d"
	add(p)
	p.Producers = 2
	add(p)
	// the directory vanished between its parent's listing and its own (listing fails, IsDir is false):
	// a listing error all the same
	p.Name, p.FailGone = "faillist-gone", true
	add(p)
	p.Producers = 1
	add(p)
	// interrupted from outside: the loop's event scope fires Kill / Error while the walk is in progress
	// (with an empty error list nothing may have been skipped)
	for _, ev := range []string{"kill", "error"} {
		p = Program{Name: "scope-" + ev, Files: []string{"a", "b", "d/c"}, Filter: "none", Producers: 1, Consumers: 1, MaxJob: 2, ChanSize: 1000, Bound: base.Bound, KillAt: "./a", KillEvent: ev}
		add(p)
		p.Consumers, p.Producers = 2, 2
		add(p)
	}
	// back-pressure: more nodes than channel capacity
	p = Program{Name: "backpressure", Files: []string{"a", "b", "c"}, Filter: "none", Producers: 1, Consumers: 1, MaxJob: 2, ChanSize: 1, Bound: 1}
	add(p)
	p.Files = []string{"a", "d/b", "d/c"}
	p.Consumers = 2
	add(p)
	if thorough {
		p.Bound = 2
		p.Producers = 2
		add(p)
	}
	// a listing longer than the queues while a producer slot is free (whatever a producer does with a
	// long listing - hand part of it to a second producer, say - every entry is still delivered once)
	p = Program{Name: "long-listing", Files: []string{"a", "b", "c", "e"}, Filter: "none", Producers: 2, Consumers: 1, MaxJob: 2, ChanSize: 1, Bound: 1}
	add(p)
	p.Files = []string{"a", "b", "d/c", "d/e", "d/f"}
	p.Consumers = 2
	add(p)
	// MaxJob 1 forces the recursive (no free producer slot) path
	p = Program{Name: "maxjob1", Files: []string{"a", "d/b", "d/e/f"}, Filter: "none", Producers: 1, Consumers: 1, MaxJob: 1, ChanSize: 1000, Bound: 1}
	add(p)
	// a chain 150 directories deep with one file per level ("all tree shapes including deep": no level is
	// too deep to be listed), default schedule only; one producer = the recursive path all the way down
	var chain []string
	dir := ""
	for i := 0; i < 150; i++ {
		dir += fmt.Sprintf("d%d/", i)
		chain = append(chain, dir+"f")
	}
	for _, pc := range [][2]int{{1, 1}, {2, 1}} {
		add(Program{Name: "chain150", Files: chain, Filter: "none", Producers: pc[0], Consumers: pc[1], MaxJob: 2, ChanSize: 1000, Bound: 0})
	}
	return ps
}

var focus = []string{"filesystem/fsloop", "workers/jobsync", "checks/c08"}

func run(c *fw.Ctx) {
	ps := programs(c.Thorough())
	c.R.Info["programs_total"] = len(ps)
	c.R.Info["focus"] = focus
	for pi, p := range ps {
		p := p
		var o obs
		if !c.Mine(pi) {
			continue // whole programs per worker: the happens-before cache is per program
		}
		opt := explore.Options{Bound: p.Bound, Focus: focus, NoShard: true, HBR: true, Deadline: c.Deadline, MaxSteps: 4000}
		if p.Name == "chain150" {
			opt.MaxSteps = 400000
			opt.OnlyKinds = []int{vsched.KindMap} // the default schedule only (no map iteration in these packages)
		}
		b := body(p, &o)
		st, err := explore.Explore(opt, b, func(x *explore.Exec) bool {
			c.SetAdd("outcomes", fmt.Sprintf("%s|f=%v d=%v e=%d", p.Name, sorted(o.files), sorted(o.dirs), len(o.errs)))
			clause, sig, detail := judge(p, &o, x)
			if sig != "" && !c.Violated(sig) {
				// confirm 5x
				ropt := opt
				_, stable, cerr := explore.Confirm(&ropt, x.Choices, b, func(y *explore.Exec) string { _, s, d := judge(p, &o, y); return s + d }, 5)
				if cerr != nil || !stable {
					c.Count("unstable_candidates", 1)
					return true
				}
				c.Violate(&fw.Violation{Property: "C08", Clause: clause, Signature: sig, Detail: fmt.Sprintf("program %+v\n%s\nschedule (choices) %v", p, detail, x.Choices),
					Witness: fw.JSON(witness{p, x.Choices})})
			} else if sig != "" {
				c.Violate(&fw.Violation{Signature: sig})
			}
			return true
		})
		if err != nil {
			c.Infra("program %d %s: %v", pi, p.Name, err)
			return
		}
		c.R.Evaluations += st.Execs
		c.R.Traces += st.Execs
		c.R.Transitions += st.Steps
		c.R.States += st.TraceKinds
		c.R.Distinct += st.TraceKinds
		c.R.Programs++
		c.Count("hb_pruned_subtrees", st.Pruned)
		if len(c.R.Info) < 400 {
			c.R.Info["execs:"+p.Name+fmt.Sprintf("/p%dc%d", p.Producers, p.Consumers)] = st.Execs
		}
		c.Max("points", int64(st.MaxPoints))
		c.Max("steps", int64(st.MaxSteps))
		c.Max("bound_completed", int64(p.Bound))
		if st.Capped {
			c.NotExhaustive(fmt.Sprintf("program %s: %s", p.Name, st.CapReason))
			break
		}
		if pi < 2 {
			c.Sample(map[string]interface{}{"program": p, "executions": st.Execs, "max_choice_points": st.MaxPoints})
		}
	}
}

func replay(w json.RawMessage) (*fw.Violation, error) {
	var wit witness
	if err := json.Unmarshal(w, &wit); err != nil {
		return nil, err
	}
	var o obs
	opt := explore.Options{Bound: -1, Focus: focus, MaxSteps: 4000}
	if wit.Program.Name == "chain150" {
		opt.MaxSteps = 400000
	}
	x, err := explore.RunOnce(&opt, wit.Choices, body(wit.Program, &o))
	if err != nil {
		return nil, err
	}
	clause, sig, detail := judge(wit.Program, &o, x)
	if sig == "" {
		return nil, nil
	}
	return &fw.Violation{Property: "C08", Clause: clause, Signature: sig, Detail: detail}, nil
}

func init() {
	fw.Register(&fw.Check{ID: "C08", Level: "model_checking",
		Rule: "programs = tree shape x filter x (producers,consumers) x MaxJob x channel capacity x injected callback/listing failure; for each program every schedule of the real fsloop/jobsync code with at most `bound` preemptions is executed (stateless DFS, fair yield); distinct = distinct schedule traces (thread/op/object sequences)",
		Run:  run, Replay: replay,
		Assumptions: []string{"all cross-thread communication of fsloop/jobsync goes through instrumented sync/channel operations", "preemption bound per program as reported (max_bound_completed); 2 consumers/producers at most", "memfs and harness callbacks are non-preemptive except at the explicit callback point"}})
}
