// Package pipx is the whole-application harness shared by C14 (pipeline wait lists) and C16
// (pip:try): a mock goatcore application bootstrapped per execution with probe commands in
// its terminal, driven under the controlled scheduler.
package pipx

import (
	"errors"
	"fmt"
	"strings"

	"github.com/goatcms/goatcore/app"
	"github.com/goatcms/goatcore/app/bootstrap"
	"github.com/goatcms/goatcore/app/gio"
	"github.com/goatcms/goatcore/app/goatapp"
	"github.com/goatcms/goatcore/app/injector"
	"github.com/goatcms/goatcore/app/modules/commonm"
	"github.com/goatcms/goatcore/app/modules/commonm/commservices"
	"github.com/goatcms/goatcore/app/modules/ocm"
	"github.com/goatcms/goatcore/app/modules/pipelinem"
	"github.com/goatcms/goatcore/app/modules/pipelinem/pipservices"
	"github.com/goatcms/goatcore/app/modules/pipelinem/pipservices/namespaces"
	"github.com/goatcms/goatcore/app/modules/terminalm"
	"github.com/goatcms/goatcore/app/modules/terminalm/termservices"
	"github.com/goatcms/goatcore/app/scope"
	"github.com/goatcms/goatcore/app/terminal"
	"github.com/goatcms/goatcore/filesystem"
	"github.com/goatcms/goatcore/filesystem/filespace/memfs"
	"github.com/goatcms/goatcore/varutil/goaterr"
	"github.com/goatcms/goatcore/zzverif/vsched"
)

// Event recorded by a probe command.
type Event struct {
	Step int
	Kind string // begin | end
	ID   string
	Task string
}

// World is one bootstrapped application.
type World struct {
	App      app.App
	Runner   pipservices.Runner
	Tasks    pipservices.TasksUnit
	Terminal termservices.Terminal
	Mutex    commservices.SharedMutex
	Root     app.Scope
	CWD      filesystem.Filespace
	Events   []Event
	seq      int
	Inside   map[string]int // lock resource -> holders currently inside a "hold" probe
	MaxInside map[string]int
	// exclusion bookkeeping per resource for --hold=[r:]name: writers and readers currently inside
	insideW, insideR map[string]int
	ExclViolation    string
}

// ErrProbe is what a failing probe reports.
var ErrProbe = errors.New("probe-failed")

func (w *World) tick() int {
	w.seq++
	vsched.Note("probe")
	return w.seq
}

// New bootstraps the application (must run inside a controlled execution).
func New() (*World, error) {
	w := &World{Inside: map[string]int{}, MaxInside: map[string]int{}, insideW: map[string]int{}, insideR: map[string]int{}}
	mapp, err := goatapp.NewMockupApp(goatapp.Params{})
	if err != nil {
		return nil, err
	}
	b := bootstrap.NewBootstrap(mapp)
	if err = goaterr.ToError(goaterr.AppendError(nil,
		b.Register(terminalm.NewModule()),
		b.Register(commonm.NewModule()),
		b.Register(ocm.NewModule()),
		b.Register(pipelinem.NewModule()),
	)); err != nil {
		return nil, err
	}
	w.App = mapp
	mapp.Terminal().SetCommand(terminal.NewCommand(terminal.CommandParams{Name: "probe", Callback: w.probe}))
	if err = b.Init(); err != nil {
		return nil, err
	}
	var deps struct {
		Sandboxes pipservices.SandboxesManager `dependency:"PipSandboxesManager"`
		Runner   pipservices.Runner       `dependency:"PipRunner"`
		Tasks    pipservices.TasksUnit    `dependency:"PipTasksUnit"`
		Terminal termservices.Terminal    `dependency:"TerminalService"`
		Mutex    commservices.SharedMutex `dependency:"CommonSharedMutex"`
	}
	if err = mapp.DependencyProvider().InjectTo(&deps); err != nil {
		return nil, err
	}
	w.Runner, w.Tasks, w.Terminal, w.Mutex = deps.Runner, deps.Tasks, deps.Terminal, deps.Mutex
	// a sandbox kind that reports its failure ONLY through the return value of Run (like the ssh and
	// container sandboxes do for set-up errors): "retfail:<id>" logs begin/end of <id> and fails,
	// "retok:<id>" succeeds
	deps.Sandboxes.Add(&retSandboxes{w})
	w.Root = scope.New(scope.Params{Name: "harness-root"})
	w.CWD, _ = memfs.NewFilespace()
	return w, nil
}

// probe is the terminal command every script is made of:
//   probe --id=X [--fail=return|append] [--yield=N] [--hold=resource]
func (w *World) probe(a app.App, ctx app.IOContext) error {
	var deps struct {
		ID    string `command:"?id"`
		Fail  string `command:"?fail"`
		Yield string `command:"?yield"`
		Hold  string `command:"?hold"`
		Task  string `command:"?task"`
		Spawn string `command:"?spawn"`
		Sched string `command:"?gosched"`
		Read  string `command:"?readline"`
		Stop  string `command:"?stop"`
	}
	if err := ctx.Scope().InjectTo(&deps); err != nil {
		return err
	}
	w.Events = append(w.Events, Event{w.tick(), "begin", deps.ID, deps.Task})
	if deps.Hold != "" {
		w.Inside[deps.Hold]++
		if w.Inside[deps.Hold] > w.MaxInside[deps.Hold] {
			w.MaxInside[deps.Hold] = w.Inside[deps.Hold]
		}
		for _, h := range strings.Split(deps.Hold, ",") {
			res, reader := strings.TrimPrefix(h, "r:"), strings.HasPrefix(h, "r:")
			if (reader && w.insideW[res] > 0) || (!reader && w.insideW[res]+w.insideR[res] > 0) {
				if w.ExclViolation == "" {
					w.ExclViolation = fmt.Sprintf("%s entered resource %q (reader=%v) while %d writer(s) and %d reader(s) were inside", deps.ID, res, reader, w.insideW[res], w.insideR[res])
				}
			}
			if reader {
				w.insideR[res]++
			} else {
				w.insideW[res]++
			}
		}
	}
	if deps.Spawn != "" {
		// the command starts two CONCURRENT tasks on its own scope: a slow one that succeeds and one
		// that fails (--spawn=fail) or succeeds (--spawn=ok); the command itself returns at once
		badBody := "probe --id=nested.bad --fail=return\n"
		if deps.Spawn == "ok" {
			badBody = "probe --id=nested.bad\n"
		}
		if err := w.Runner.Run(w.Pip(deps.ID+"-slow", "probe --id=nested.slow --yield=2\n", nil, nil, ctx.Scope())); err != nil {
			return err
		}
		if err := w.Runner.Run(w.Pip(deps.ID+"-bad", badBody, nil, nil, ctx.Scope())); err != nil {
			return err
		}
		// the command returns (and its scope is closed) only after the second task has ended, while the
		// slow one may still be running
		for len(w.EventsOf("nested.bad")) < 2 {
			vsched.Yield()
		}
	}
	if deps.Stop != "" {
		ctx.Scope().Stop() // graceful: the scope is done, it holds no error, the command goes on
	}
	n := 0
	fmt.Sscanf(deps.Yield, "%d", &n)
	for i := 0; i < n; i++ {
		vsched.Point("probe-yield")
	}
	g := 0
	fmt.Sscanf(deps.Sched, "%d", &g)
	for i := 0; i < g; i++ {
		vsched.Yield() // hands the processor over at no preemption cost (runtime.Gosched)
	}
	if deps.Read != "" {
		// the command consumes the next line of ITS input (what follows its own line in the script)
		var line []byte
		buf := make([]byte, 1)
		for {
			if _, err := ctx.IO().In().Read(buf); err != nil || buf[0] == '\n' {
				break
			}
			line = append(line, buf[0])
		}
		w.Events = append(w.Events, Event{w.tick(), "payload=" + string(line), deps.ID, deps.Task})
	}
	if deps.Hold != "" {
		w.Inside[deps.Hold]--
		for _, h := range strings.Split(deps.Hold, ",") {
			if res := strings.TrimPrefix(h, "r:"); strings.HasPrefix(h, "r:") {
				w.insideR[res]--
			} else {
				w.insideW[res]--
			}
		}
	}
	w.Events = append(w.Events, Event{w.tick(), "end", deps.ID, deps.Task})
	switch deps.Fail {
	case "stop-return":
		// the command stops its scope gracefully and THEN reports a failure
		ctx.Scope().Stop()
		return ErrProbe
	case "kill":
		// the command kills its scope and reports nothing else: the scope has failed all the same
		ctx.Scope().Kill()
	case "return":
		return ErrProbe
	case "append":
		ctx.Scope().AppendError(ErrProbe)
	}
	return nil
}

type retSandboxes struct{ w *World }

func (b *retSandboxes) Is(name string) bool {
	return strings.HasPrefix(name, "retfail:") || strings.HasPrefix(name, "retok:") || strings.HasPrefix(name, "async:")
}

// asyncSandbox ("async:<id>:<resource>"): Run registers a piece of work on the task's scope, starts it in
// a goroutine and returns at once; the work enters the named resource as a writer. The runner waits
// for the task scope before the task counts as finished - and must keep the task's locks until then.
type asyncSandbox struct {
	w        *World
	id, res  string
}

func (s *asyncSandbox) Run(ctx app.IOContext) error {
	if err := ctx.Scope().AddTasks(1); err != nil {
		return err
	}
	w := s.w
	vsched.Go(func() {
		defer ctx.Scope().DoneTask()
		w.Events = append(w.Events, Event{w.tick(), "begin", s.id, ""})
		if w.insideW[s.res]+w.insideR[s.res] > 0 && w.ExclViolation == "" {
			w.ExclViolation = fmt.Sprintf("%s entered resource %q as a writer while %d writer(s) and %d reader(s) were inside", s.id, s.res, w.insideW[s.res], w.insideR[s.res])
		}
		w.insideW[s.res]++
		vsched.Point("sandbox-yield")
		w.insideW[s.res]--
		w.Events = append(w.Events, Event{w.tick(), "end", s.id, ""})
	})
	return nil
}

func (b *retSandboxes) Build(name string) (pipservices.Sandbox, error) {
	if strings.HasPrefix(name, "async:") {
		parts := strings.SplitN(name, ":", 3)
		if len(parts) != 3 {
			return nil, fmt.Errorf("async sandbox name must be async:<id>:<resource>")
		}
		return &asyncSandbox{b.w, parts[1], parts[2]}, nil
	}
	return &retSandbox{b.w, strings.HasPrefix(name, "retfail:"), name[strings.Index(name, ":")+1:]}, nil
}

type retSandbox struct {
	w    *World
	fail bool
	id   string
}

func (s *retSandbox) Run(ctx app.IOContext) error {
	s.w.Events = append(s.w.Events, Event{s.w.tick(), "begin", s.id, ""})
	vsched.Point("sandbox-yield")
	s.w.Events = append(s.w.Events, Event{s.w.tick(), "end", s.id, ""})
	if s.fail {
		return ErrProbe
	}
	return nil
}

// Separated returns a scope that shares the root's data, events and injector but has its OWN
// context - what pip:try builds for its body: a failure inside does not fail the root, yet the task
// is registered with the root's task manager.
func (w *World) Separated() (app.Scope, error) {
	if _, err := w.Tasks.FromScope(w.Root); err != nil {
		return nil, err
	}
	return scope.New(scope.Params{
		DataScope:  w.Root,
		EventScope: w.Root,
		Injector:   injector.NewMultiInjector([]app.Injector{w.Root}),
	}), nil
}

// Pip builds a pipeline submission for the runner seam.
func (w *World) Pip(name, body string, wait []string, lock commservices.LockMap, scp app.Scope) pipservices.Pip {
	if scp == nil {
		scp = w.Root
	}
	if lock == nil {
		lock = commservices.LockMap{}
	}
	return pipservices.Pip{
		Context: pipservices.PipContext{
			In:    gio.NewInput(strings.NewReader(body)),
			Out:   gio.NewNilOutput(),
			Err:   gio.NewNilOutput(),
			CWD:   w.CWD,
			Scope: scp,
		},
		Name:       name,
		Namespaces: namespaces.NewNamespaces(pipservices.NamasepacesParams{Task: "", Lock: ""}),
		Sandbox:    "self",
		Lock:       lock,
		Wait:       wait,
	}
}

// RunScript feeds a script to the terminal seam on a fresh child context of the root.
func (w *World) RunScript(script string, scp app.Scope) error { return w.RunScriptPrompt(script, scp, "") }

// RunScriptPrompt: the same with an interactive prompt.
func (w *World) RunScriptPrompt(script string, scp app.Scope, prompt string) error {
	if scp == nil {
		scp = w.Root
	}
	ctx := gio.NewIOContext(scp, gio.NewIO(gio.IOParams{
		In:  gio.NewInput(strings.NewReader(script)),
		Out: gio.NewNilOutput(),
		Err: gio.NewNilOutput(),
		CWD: w.CWD,
	}))
	return w.Terminal.RunLoop(ctx, prompt)
}

// EventsOf returns the events whose id starts with prefix.
func (w *World) EventsOf(prefix string) []Event {
	var out []Event
	for _, e := range w.Events {
		if strings.HasPrefix(e.ID, prefix) {
			out = append(out, e)
		}
	}
	return out
}

// Render the event log.
func (w *World) Render() string {
	var l []string
	for _, e := range w.Events {
		l = append(l, fmt.Sprintf("%d:%s(%s)", e.Step, e.Kind, e.ID))
	}
	return strings.Join(l, " ")
}
