// Package cachex decides C06 (write-back cache: nothing before Commit, everything after,
// commit faults reported) and C07 (read-your-writes) by exhaustive enumeration of bounded
// cache operation histories over several initial remote trees, on the real fscache code.
package cachex

import (
	"encoding/json"
	"fmt"
	"os"
	"path/filepath"
	"sort"
	"strings"

	"github.com/goatcms/goatcore/filesystem"
	"github.com/goatcms/goatcore/filesystem/filespace/diskfs"
	"github.com/goatcms/goatcore/filesystem/filespace/memfs"
	"github.com/goatcms/goatcore/filesystem/fscache"

	"github.com/goatcms/goatcore/zzverif/vsched"

	"verif/explore"
	"verif/fsx"
	"verif/fw"
	"verif/models/treefs"
)

// initial remote trees
var remotes = []map[string]string{
	{},
	{"f": "r0"},
	{"d/f": "r1", "d/g": "r2", "e/": ""},
	{"d/e/f": "r3"},
}

func alphabet() []treefs.Op {
	var a []treefs.Op
	w := func(p, d string) { a = append(a, treefs.Op{Kind: "WriteFile", P: p, Data: d}) }
	w("f", "N1")
	w("d/f", "N2")
	w("x/y", "N3")
	w("d/e/h", "N4")
	a = append(a, treefs.Op{Kind: "Writer", P: "f", Chunks: []string{"W", "1"}}, treefs.Op{Kind: "Writer", P: "d/g", Chunks: []string{"W2"}})
	// a writer that is opened and closed without a single Write: creates an empty file / empties the remote's
	a = append(a, treefs.Op{Kind: "Writer", P: "f"})
	// (f: a path that is a FILE on one of the remotes - after its removal it can come back as a directory)
	for _, p := range []string{"d", "e", "d/e", "x", "f"} {
		a = append(a, treefs.Op{Kind: "MkdirAll", P: p})
	}
	w("f/sub", "N8")
	// (d/e/h and x/y: removing the only file leaves an EMPTY directory that nothing journals - below a
	// directory the remote already has, resp. at the top)
	for _, p := range []string{"f", "d/f", "d/g", "e", "d", "d/e", "d/e/h", "x/y"} {
		a = append(a, treefs.Op{Kind: "Remove", P: p})
	}
	for _, p := range []string{"d", "e", "f", "d/e", "x"} {
		a = append(a, treefs.Op{Kind: "RemoveAll", P: p})
	}
	// names that are textual prefixes of one another without being ancestors (x / x2, d / d2, e / e2)
	w("d2/f", "N7")
	// writing back exactly what the remote holds (value reuse: "unchanged" must be judged against
	// the cache's own view, not against the remote)
	w("f", "r0")
	w("d/f", "r1")
	a = append(a, treefs.Op{Kind: "CopyFile", P: "f", Q: "x2"}, treefs.Op{Kind: "CopyFile", P: "d/f", Q: "d/h"},
		treefs.Op{Kind: "CopyDirectory", P: "d", Q: "y"}, treefs.Op{Kind: "CopyDirectory", P: "d/e", Q: "e2"},
		treefs.Op{Kind: "Copy", P: "d", Q: "z"}, treefs.Op{Kind: "Copy", P: "f", Q: "d/k"},
		// copies ONTO paths that other operations write (same and different content length)
		treefs.Op{Kind: "CopyFile", P: "f", Q: "d/f"}, treefs.Op{Kind: "CopyFile", P: "d/f", Q: "f"}, treefs.Op{Kind: "Copy", P: "d/g", Q: "x/y"})
	w("f", "N1-longer")
	// mutations through child views and with non-canonical spellings (the cache sees "/d/h", "./f")
	a = append(a, treefs.Op{Kind: "WriteFile", P: "./f", Data: "N5"}, treefs.Op{Kind: "WriteFile", P: "h", Data: "N6", View: []string{"d"}},
		treefs.Op{Kind: "Remove", P: "f", View: []string{"d"}}, treefs.Op{Kind: "MkdirAll", P: "k", View: []string{"x"}},
		// (a child view whose directory name starts with a dot - next to a sibling named like it without the dot)
		treefs.Op{Kind: "WriteFile", P: "y", Data: "N9", View: []string{".x"}})
	a = append(a, treefs.Op{Kind: "Commit"})
	return a
}

var seq int

type world struct {
	remote filesystem.Filespace // raw remote
	cache  *fscache.Cache
	inj    *fsx.Injector
	done   func()
}

func newWorld(r0 map[string]string, disk bool, inj *fsx.Injector) (*world, error) {
	w := &world{done: func() {}, inj: inj}
	if disk {
		base := os.Getenv("VCHECK_SCRATCH")
		if base == "" {
			base = os.TempDir()
		}
		seq++
		d := filepath.Join(base, fmt.Sprintf("cx-%d", seq))
		os.MkdirAll(d, 0777)
		fs, err := diskfs.NewFilespace(d)
		if err != nil {
			return nil, err
		}
		w.remote, w.done = fs, func() { os.RemoveAll(d) }
	} else {
		w.remote, _ = memfs.NewFilespace()
	}
	var ps []string
	for p := range r0 {
		ps = append(ps, p)
	}
	sort.Strings(ps)
	for _, p := range ps {
		if strings.HasSuffix(p, "/") {
			w.remote.MkdirAll(strings.TrimSuffix(p, "/"), 0777)
			continue
		}
		if err := w.remote.WriteFile(p, []byte(r0[p]), 0644); err != nil {
			return nil, err
		}
	}
	var seen filesystem.Filespace = w.remote
	if inj != nil {
		seen = &fsx.FaultFS{Inner: w.remote, In: inj, Tag: "remote"}
	}
	var err error
	w.cache, err = fscache.NewMemCache(seen)
	return w, err
}

func modelOf(r0 map[string]string) *treefs.Node {
	t := treefs.NewDir()
	for p, c := range r0 {
		segs := strings.Split(strings.TrimSuffix(p, "/"), "/")
		cur := t
		for i, s := range segs {
			last := i == len(segs)-1
			if last && !strings.HasSuffix(p, "/") {
				cur.Kids[s] = &treefs.Node{Data: c}
			} else {
				if cur.Kids[s] == nil {
					cur.Kids[s] = treefs.NewDir()
				}
				cur = cur.Kids[s]
			}
		}
	}
	return t
}

// Case is one explored history.
type Case struct {
	Remote   int         `json:"remote"`
	Disk     bool        `json:"disk"`
	History  []treefs.Op `json:"history"`
	FailAt   int         `json:"fail_commit_call,omitempty"`
	MapSched []int       `json:"map_order_choices,omitempty"`
}

// Finding of one oracle.
type Finding struct {
	Prop, Kind, Clause, Detail string
}

type runOut struct {
	findings    []Finding
	skipped     bool // history contains an op whose outcome class is unspecified at that point
	commitCalls int
	commitErr   string
}

var readPool = []string{"d2", "d2/f", "f/sub", "f", "d", "d/f", "d/g", "d/h", "d/k", "e", "d/e", "d/e/f", "d/e/h", "x", "x/y", ".x/y", "x2", "y", "y/f", "z", "e2", "."}

// execute runs one case with both oracles.
func execute(cs Case, wantC06, wantC07 bool) runOut {
	var out runOut
	add := func(prop, kind, clause, detail string) {
		out.findings = append(out.findings, Finding{prop, kind, clause, detail})
	}
	var inj *fsx.Injector
	if cs.FailAt != 0 {
		inj = &fsx.Injector{Fail: map[int]bool{}}
	}
	w, err := newWorld(remotes[cs.Remote], cs.Disk, inj)
	if err != nil {
		add("", "harness", "", err.Error())
		return out
	}
	defer w.done()
	rm := modelOf(remotes[cs.Remote]) // what the remote must look like
	// every content the remote has held per path (initially and after each Commit): what a read that
	// falls through to the remote can have seen
	everRemote := map[string]map[string]bool{}
	noteRemote := func(flat map[string]string) {
		for p, v := range flat {
			if strings.HasPrefix(v, "file:") {
				if everRemote[p] == nil {
					everRemote[p] = map[string]bool{}
				}
				everRemote[p][v] = true
			}
		}
	}
	noteRemote(rm.Flat())
	ov := rm.Clone() // remote + pending successful operations
	dirty := false
	hist := append(append([]treefs.Op{}, cs.History...), treefs.Op{Kind: "Commit"}, treefs.Op{Kind: "Commit"})
	nCommit := 0
	if wantC07 {
		// the first reads happen before anything was written (negative answers may be remembered)
		readsAgree(w.cache, ov, rm, modelOf(remotes[cs.Remote]), nil, nil)
		if n := ov.Lookup([]string{"d"}); n != nil && n.Dir {
			readsAgree(w.cache, ov, rm, modelOf(remotes[cs.Remote]), []string{"d"}, nil)
		}
	}
	// Remove(x) of a directory that is on the remote at that moment: never replayed by Commit (recorded
	// finding); a FILE created at x afterwards then collides with the remote's directory
	remoteDirRemoved := map[string]bool{}
	retypedAfterDirRemove := false
	for i, op := range hist {
		final := i >= len(cs.History)
		if op.Kind != "Commit" {
			a := absOps([]treefs.Op{op})[0]
			if a.Kind == "Remove" {
				segs, _ := treefs.Norm(a.P)
				if n := rm.Lookup(segs); n != nil && n.Dir && len(segs) > 0 {
					remoteDirRemoved[a.P] = true
				}
			}
			switch a.Kind {
			case "WriteFile", "Writer":
				if remoteDirRemoved[a.P] {
					retypedAfterDirRemove = true
				}
			case "CopyFile", "Copy":
				if remoteDirRemoved[a.Q] {
					retypedAfterDirRemove = true
				}
			}
		}
		if op.Kind == "Commit" {
			nCommit++
			failing := false
			if inj != nil && final && nCommit == countCommits(cs.History)+1 {
				// the fault is injected into the first final Commit
				inj.N = 0
				inj.Fail = map[int]bool{cs.FailAt: true}
				failing = true
			} else if inj != nil {
				inj.Fail = map[int]bool{}
				inj.N = 0
			}
			var cerr error
			var pan string
			func() {
				defer func() {
					if p := recover(); p != nil {
						pan = fmt.Sprint(p)
					}
				}()
				cerr = w.cache.Commit()
			}()
			if inj != nil && failing {
				out.commitCalls = inj.N
			}
			if pan != "" {
				add("C06", "commit-panic", "Commit does not panic", "Commit panicked: "+pan)
				return out
			}
			if failing {
				hit := len(inj.Hits) > 0
				if hit && cerr == nil && !strings.Contains(inj.Hits[0], ".Is") {
					add("C06", "commit-fault-not-reported/"+callName(inj.Hits[0]), "if the remote fails during Commit the failure is reported", fmt.Sprintf("remote call %s failed during Commit, but Commit returned nil", inj.Hits[0]))
				}
				if cerr != nil {
					out.commitErr = cerr.Error()
				}
				continue // the next (fault-free) Commit must still reach the fold
			}
			if cerr != nil {
				if !dirty {
					continue
				}
				kind := "commit-failed/" + lastKind(cs.History)
				if roots := remoteFileAsDir(absOps(cs.History), func(q string) bool { return len(everRemote[q]) > 0 }); len(roots) > 0 {
					// the remote (rightly) refuses what the cache accepted without consulting it
					kind = "commit-failed/remote-file-used-as-directory"
				} else if retypedAfterDirRemove && strings.Contains(cerr.Error(), "must be a file") {
					// the remote still holds the directory whose Remove is never committed
					kind = "commit-failed/remove-of-remote-directory-not-committed"
				}
				add("C06", kind, "a Commit without remote failures succeeds", fmt.Sprintf("Commit returned %v", cerr))
				return out
			}
			rm = ov.Clone()
			dirty = false
			if wantC06 {
				got, probs := fsx.Walk(w.remote)
				if fsx.FlatKey(got) != fsx.FlatKey(rm.Flat()) || len(probs) > 0 {
					phase := "after-commit"
					if cs.FailAt != 0 {
						phase = "after-failed-then-successful-commit"
					} else if final && nCommit == countCommits(cs.History)+2 {
						phase = "after-second-commit"
					}
					kind, why := classifyDiff(rm.Flat(), got, cs.History[:min(i, len(cs.History))], remotes[cs.Remote], everRemote)
					add("C06", phase+"/"+kind, "after a successful Commit the remote equals the initial tree with the same successful operations applied", fmt.Sprintf("%s; remote vs expected: %s %s", why, fsx.DiffFlat(rm.Flat(), got), strings.Join(probs, ";")))
					return out
				}
			}
			noteRemote(rm.Flat())
			continue
		}
		// a cache operation
		e := treefs.Apply(ov, op)
		if over := fileOverFile(ov, op); over != nil && e.Class == treefs.Unspecified {
			// a file copied onto an existing file: whether that is accepted is unspecified (the
			// backends differ), but IF the cache reports success the destination is a copy of the
			// source from then on - in every read and, after Commit, on the remote
			r := fsx.Exec(w.cache, op)
			if r.Panic != "" {
				add("C06", "op-panic/"+op.Kind, "cache operations do not panic", r.Panic)
				return out
			}
			if r.Err == "" {
				ov = over
				dirty = true
			}
			e = treefs.Expect{Class: treefs.MustOK}
			goto judged
		}
		if e.Class == treefs.Either {
			// both outcomes are acceptable (error, or the stated effect): the cache's own answer
			// decides which one the fold continues with
			r := fsx.Exec(w.cache, op)
			if r.Panic != "" {
				add("C06", "op-panic/"+op.Kind, "cache operations do not panic", r.Panic)
				return out
			}
			if r.Err == "" {
				if e.After != nil {
					ov = e.After
				}
				dirty = true
			}
			goto judged
		}
		if e.Class != treefs.MustOK && e.Class != treefs.MustFail {
			out.skipped = true
			return out
		}
		{
			r := fsx.Exec(w.cache, op)
			if r.Panic != "" {
				add("C06", "op-panic/"+op.Kind, "cache operations do not panic", r.Panic)
				return out
			}
			if r.Err == "" && e.Class == treefs.MustOK && e.After != nil {
				ov = e.After
				dirty = true
			} else if r.Err == "" && e.Class == treefs.MustFail {
				// reported success for something the remote itself would refuse: applying it to the
				// remote changes nothing; the overlay is unchanged as well
				dirty = true
			}
		}
	judged:
		if i != len(cs.History)-1 {
			// every prefix is enumerated as a history of its own, so the oracles run at the end - but
			// the READS are issued after every step: reading is part of the history (a cache may
			// remember answers), only their judgement is left to the prefix's own run
			if wantC07 && len(cs.History) <= 3 {
				readsAgree(w.cache, ov, rm, modelOf(remotes[cs.Remote]), nil, cs.History[:i+1])
			}
			continue
		}
		// C06 (i): the remote is not modified before Commit
		if wantC06 {
			got, _ := fsx.Walk(w.remote)
			if fsx.FlatKey(got) != fsx.FlatKey(rm.Flat()) {
				add("C06", "remote-modified-before-commit/"+op.Kind, "while operations are applied to a cache the remote is not modified at all", fmt.Sprintf("after cache op %s the remote changed: %s", fsx.OpString(op), fsx.DiffFlat(rm.Flat(), got)))
				return out
			}
		}
		// C07: every read answers as if the pending operations were applied
		if wantC07 && !final {
			fs := readsAgree(w.cache, ov, rm, modelOf(remotes[cs.Remote]), nil, cs.History[:i+1])
			for _, sub := range []string{"d", "x"} {
				if n := ov.Lookup([]string{sub}); n != nil && n.Dir {
					fs = append(fs, readsAgree(w.cache, ov, rm, modelOf(remotes[cs.Remote]), []string{sub}, cs.History[:i+1])...)
				}
			}
			if len(fs) > 0 {
				out.findings = append(out.findings, fs...)
				return out
			}
		}
	}
	return out
}

// fileOverFile returns the overlay after "copy file P onto the existing file Q" (nil if op is
// not of that shape on t).
func fileOverFile(t *treefs.Node, op treefs.Op) *treefs.Node {
	if op.Kind != "CopyFile" && op.Kind != "Copy" {
		return nil
	}
	ps, e1 := treefs.Norm(op.P)
	qs, e2 := treefs.Norm(op.Q)
	if e1 || e2 || len(ps) == 0 || len(qs) == 0 || strings.Join(ps, "/") == strings.Join(qs, "/") {
		return nil
	}
	src, dst := t.Lookup(ps), t.Lookup(qs)
	if src == nil || dst == nil || src.Dir || dst.Dir {
		return nil
	}
	a := t.Clone()
	a.Lookup(qs).Data = src.Data
	return a
}

func countCommits(h []treefs.Op) int {
	n := 0
	for _, o := range h {
		if o.Kind == "Commit" {
			n++
		}
	}
	return n
}

func lastKind(h []treefs.Op) string {
	for i := len(h) - 1; i >= 0; i-- {
		if h[i].Kind != "Commit" {
			return h[i].Kind
		}
	}
	return "none"
}

func callName(hit string) string {
	if i := strings.Index(hit, " "); i >= 0 {
		return hit[i+1:]
	}
	return hit
}

// readsAgree compares every read-type operation on every pool path with the overlay model.
func readsAgree(cache filesystem.Filespace, ov, rm, r0 *treefs.Node, view []string, hist []treefs.Op) (out []Finding) {
	for _, p := range readPool {
		abs := p
		rel := p
		if len(view) > 0 {
			pre := strings.Join(view, "/") + "/"
			if p == "." {
				abs = strings.Join(view, "/")
			} else if !strings.HasPrefix(p, pre) {
				continue
			} else {
				rel = strings.TrimPrefix(p, pre)
			}
		}
		for _, k := range []string{"IsExist", "IsFile", "IsDir", "ReadFile", "Reader", "ReadDir", "Lstat"} {
			op := treefs.Op{Kind: k, P: rel, Buf: 3, View: view}
			e := treefs.Apply(ov, op)
			r := fsx.Exec(cache, op)
			var m *fsx.Mismatch
			if r.Panic != "" {
				m = &fsx.Mismatch{Clause: "no panic", Kind: "panic", Detail: r.Panic}
			} else {
				m = compareRead(op, e, r)
			}
			if m == nil {
				continue
			}
			segs, _ := treefs.Norm(abs)
			state := nodeState(ov, rm, segs)
			where := "cache"
			if len(view) > 0 {
				where = "child-view"
			}
			kind := fmt.Sprintf("%s/%s/%s/%s", k, m.Kind, state, where)
			if rc := rootCause(hist, ov, rm, r0, segs, state, m, r, e); rc != "" {
				kind = rc
			}
			out = append(out, Finding{"C07", kind, "every read-type operation answers as if the pending operations had already been applied on top of the remote",
				fmt.Sprintf("after %s, %s on path %q (%s): %s", fsx.HistString(hist), fsx.OpString(op), abs, state, m.Detail)})
		}
	}
	return out
}

// rootCause maps a read mismatch to one of the recorded design defects of the cache when -
// and only when - the history exhibits that defect's trigger for this very path; otherwise ""
// (the finding keeps its symptom signature and is reported as a new violation).
// absOps rewrites a history into canonical absolute paths (view chains and spellings resolved),
// which is what the root-cause predicates reason about.
func absOps(hist []treefs.Op) []treefs.Op {
	out := make([]treefs.Op, len(hist))
	for i, o := range hist {
		root, _ := treefs.ViewRoot(o.View)
		abs := func(p string) string {
			if p == "" && o.Kind == "Commit" {
				return p
			}
			s, _ := treefs.Norm(p)
			return strings.Join(append(append([]string{}, root...), s...), "/")
		}
		o.P = abs(o.P)
		if o.Q != "" {
			o.Q = abs(o.Q)
		}
		o.View = nil
		out[i] = o
	}
	return out
}

// remoteFileAsDir returns the paths that some operation of the history used as a DIRECTORY although
// the remote holds (or held) a FILE there that was not removed through the cache before: the cache
// accepts such operations without consulting the remote (recorded design gap).
func remoteFileAsDir(hist []treefs.Op, wasRemoteFile func(path string) bool) []string {
	var roots []string
	removed := map[string]bool{}
	for _, o := range hist {
		switch o.Kind {
		case "Remove", "RemoveAll":
			removed[o.P] = true
			continue
		case "Commit":
			continue
		}
		dest, self := o.P, o.Kind == "MkdirAll"
		switch o.Kind {
		case "CopyFile", "CopyDirectory", "Copy":
			dest = o.Q
			self = o.Kind == "CopyDirectory"
			// a copy OF such a path carries the conflict to its destination
			for _, q := range roots {
				if o.P == q || strings.HasPrefix(o.P, q+"/") || strings.HasPrefix(q, o.P+"/") {
					roots = append(roots, o.Q)
					break
				}
			}
		case "WriteFile", "Writer", "MkdirAll":
		default:
			continue
		}
		segs := strings.Split(dest, "/")
		n := len(segs) - 1
		if self {
			n = len(segs)
		}
		for i := 1; i <= n; i++ {
			q := strings.Join(segs[:i], "/")
			if wasRemoteFile(q) && !removed[q] {
				roots = append(roots, q)
			}
		}
	}
	return roots
}

func rootCause(hist []treefs.Op, ov, rm, r0 *treefs.Node, segs []string, state string, m *fsx.Mismatch, r fsx.Result, e treefs.Expect) string {
	hist = absOps(hist)
	p := strings.Join(segs, "/")
	under := func(a, b string) bool { return b == "" || b == "." || a == b || strings.HasPrefix(a, b+"/") }
	isFile := func(t *treefs.Node, q string) bool {
		s, _ := treefs.Norm(q)
		n := t.Lookup(s)
		return n != nil && !n.Dir
	}
	for _, q := range remoteFileAsDir(hist, func(q string) bool { return isFile(r0, q) || isFile(rm, q) }) {
		if under(p, q) {
			return "remote-file-used-as-directory"
		}
	}
	shown := m.Kind == "answered-true" || m.Kind == "succeeded-on-invisible-node"
	if shown && (state == "removed-remote-file" || state == "removed-remote-dir") {
		return "removed-remote-node-still-visible/" + strings.TrimPrefix(state, "removed-remote-")
	}
	// the same gap after a type change: a remote node removed through the cache and re-created with
	// the other kind - the remote's old node still shines through (queries, reads, listing entry)
	removedThenRetyped := func(q string) (string, bool) {
		s, _ := treefs.Norm(q)
		o, rr := ov.Lookup(s), rm.Lookup(s)
		if o == nil || rr == nil || o.Dir == rr.Dir {
			return "", false
		}
		for _, h := range hist {
			if (h.Kind == "Remove" || h.Kind == "RemoveAll") && under(q, h.P) {
				if rr.Dir {
					return "dir", true
				}
				return "file", true
			}
		}
		return "", false
	}
	if kind, ok := removedThenRetyped(p); ok && p != "" && (m.Kind == "answered-true" || m.Kind == "answered-false") {
		// (existence / kind queries only: data reads of such a path do fail as they should)
		return "removed-remote-node-still-visible/" + kind
	} else if ok && p != "" && kind == "dir" && m.Kind == "succeeded-on-invisible-node" && state == "remote-dir-replaced-by-file" {
		// ... except ReadDir of a removed remote directory that is a file now: the buffer refuses (a file),
		// the listing falls through to the remote's directory
		return "removed-remote-node-still-visible/dir"
	}
	if strings.HasPrefix(m.Kind, "lists-") || strings.HasPrefix(m.Kind, "misses-") || m.Kind == "wrong-listing" {
		if n := ov.Lookup(segs); n != nil && n.Dir {
			for name := range n.Kids {
				child := name
				if p != "" {
					child = p + "/" + name
				}
				if _, ok := removedThenRetyped(child); ok {
					return "removed-remote-node-still-listed"
				}
			}
		}
	}
	// listing differences: which children are extra / missing
	var extra, missing []string
	if strings.HasPrefix(m.Kind, "lists-") || strings.HasPrefix(m.Kind, "misses-") || m.Kind == "wrong-listing" {
		want := map[string]bool{}
		for _, n := range e.List {
			want[strings.TrimSuffix(n, "/")] = true
		}
		got := map[string]bool{}
		for _, n := range r.List {
			got[strings.TrimSuffix(n, "/")] = true
			if !want[strings.TrimSuffix(n, "/")] {
				extra = append(extra, strings.TrimSuffix(n, "/"))
			}
		}
		for n := range want {
			if !got[n] {
				missing = append(missing, n)
			}
		}
		if len(missing) == 0 && len(extra) > 0 {
			all := true
			for _, n := range extra {
				st := nodeState(ov, rm, append(append([]string{}, segs...), n))
				if st != "removed-remote-file" && st != "removed-remote-dir" {
					all = false
				}
			}
			if all {
				return "removed-remote-node-still-listed"
			}
		}
	}
	// replay the model along the history
	ovm, rmm := r0.Clone(), r0.Clone()
	var dirRemovesPending, dirRemovesCommitted []string // Remove(x) of a directory that was on the remote
	removedRemote := []string{}
	pendingUnder := func(upto int, dir string) bool {
		for _, o := range hist[:upto] {
			for _, d := range []string{destOf(o)} {
				if d != "" && (under(d, dir) || under(dir, d)) {
					return true
				}
			}
		}
		return false
	}
	var tainted []string
	for i, o := range hist {
		if o.Kind == "Commit" {
			rmm = ovm.Clone()
			dirRemovesCommitted = append(dirRemovesCommitted, dirRemovesPending...)
			dirRemovesPending = nil
			continue
		}
		if o.Kind == "Remove" {
			ps, _ := treefs.Norm(o.P)
			if n := rmm.Lookup(ps); n != nil && n.Dir {
				dirRemovesPending = append(dirRemovesPending, o.P)
			}
		}
		if ex := treefs.Apply(ovm, o); ex.Class == treefs.MustOK && ex.After != nil {
			ovm = ex.After
		}
		switch o.Kind {
		case "Remove", "RemoveAll":
			removedRemote = append(removedRemote, o.P)
		case "CopyFile", "CopyDirectory", "Copy":
			touches := under(p, o.Q) || under(o.Q, p)
			for _, n := range append(append([]string{}, extra...), missing...) {
				if under(p+"/"+n, o.Q) || (p == "" && under(n, o.Q)) {
					touches = true
				}
			}
			// the source was removed through the cache - or is itself the product of such a copy
			// (the wrongly accepted copy created nodes the overlay never had; copies of those inherit it)
			srcBad := false
			for _, rr := range append(append([]string{}, removedRemote...), tainted...) {
				if under(o.P, rr) || under(rr, o.P) {
					srcBad = true
				}
			}
			if srcBad {
				tainted = append(tainted, o.Q)
			}
			if !touches {
				continue
			}
			if srcBad {
				return "copy-read-a-removed-remote-source"
			}
			if o.Kind != "CopyFile" && pendingUnder(i, o.P) && m.Kind != "wrong-data" {
				// (children missing from / wrongly present in the copy; a copied file with STALE CONTENT is
				// not a symptom of this gap: whichever version of the directory is taken holds the newest
				// bytes of the files it has)
				return "directory-copy-source-not-merged"
			}
		}
	}
	// a Remove of a remote directory is never committed (recorded C06 finding): after the Commit
	// the directory is back in every read
	visible := shown || len(extra) > 0
	for _, x := range dirRemovesCommitted {
		if !visible {
			break
		}
		if under(p, x) {
			return "uncommitted-remove-of-remote-directory-visible-after-commit"
		}
		for _, n := range extra {
			child := n
			if p != "" {
				child = p + "/" + n
			}
			if child == x {
				return "uncommitted-remove-of-remote-directory-visible-after-commit"
			}
		}
	}
	return ""
}

func destOf(o treefs.Op) string {
	switch o.Kind {
	case "WriteFile", "Writer", "MkdirAll":
		return o.P
	case "CopyFile", "CopyDirectory", "Copy":
		return o.Q
	}
	return ""
}

// nodeState names the situation of a path: pending vs remote.
func nodeState(ov, rm *treefs.Node, segs []string) string {
	o, r := ov.Lookup(segs), rm.Lookup(segs)
	kind := func(n *treefs.Node) string {
		if n == nil {
			return "absent"
		}
		if n.Dir {
			return "dir"
		}
		return "file"
	}
	switch {
	case o == nil && r != nil:
		return "removed-remote-" + kind(r)
	case o != nil && r == nil:
		return "pending-new-" + kind(o)
	case o != nil && r != nil && kind(o) == kind(r) && !o.Dir && o.Data != r.Data:
		return "pending-overwrite-of-remote-file"
	case o != nil && r != nil && o.Dir && r.Dir:
		if o.Key() != r.Key() {
			return "remote-dir-with-pending-changes"
		}
		return "unchanged-remote-dir"
	case o != nil && r != nil && kind(o) != kind(r):
		return "remote-" + kind(r) + "-replaced-by-" + kind(o)
	case o == nil && r == nil:
		return "never-existed"
	}
	return "unchanged-remote-" + kind(r)
}

func compareRead(op treefs.Op, e treefs.Expect, r fsx.Result) *fsx.Mismatch {
	switch op.Kind {
	case "IsExist", "IsFile", "IsDir":
		if r.Bool != e.Bool {
			return &fsx.Mismatch{Kind: fmt.Sprintf("answered-%v", r.Bool), Detail: fmt.Sprintf("answered %v, the overlay says %v", r.Bool, e.Bool)}
		}
	default:
		if e.Class == treefs.MustFail {
			if r.Err == "" {
				return &fsx.Mismatch{Kind: "succeeded-on-invisible-node", Detail: fmt.Sprintf("succeeded (data=%q list=%v name=%q) although the node is not visible in the overlay (%s)", r.Data, r.List, r.Name, e.Why)}
			}
			return nil
		}
		if e.Class != treefs.MustOK {
			return nil
		}
		if r.Err != "" {
			return &fsx.Mismatch{Kind: "failed-on-visible-node", Detail: fmt.Sprintf("failed with %q although the overlay has the node (%s)", r.Err, e.Why)}
		}
		switch op.Kind {
		case "ReadFile", "Reader":
			if r.Data != e.Data {
				return &fsx.Mismatch{Kind: "wrong-data", Detail: fmt.Sprintf("returned %q, the overlay holds %q", r.Data, e.Data)}
			}
		case "ReadDir":
			if strings.Join(r.List, ",") != strings.Join(e.List, ",") {
				kind := "wrong-listing"
				if hasDup(r.List) {
					kind = "name-listed-twice"
				} else if len(r.List) > len(e.List) {
					kind = "lists-invisible-node"
				} else if len(r.List) < len(e.List) {
					kind = "misses-visible-node"
				}
				return &fsx.Mismatch{Kind: kind, Detail: fmt.Sprintf("returned %v, the overlay lists %v", r.List, e.List)}
			}
		case "Lstat":
			if r.IsDir != e.IsDir {
				return &fsx.Mismatch{Kind: "wrong-kind", Detail: fmt.Sprintf("stat says dir=%v, the overlay says dir=%v", r.IsDir, e.IsDir)}
			}
		}
	}
	return nil
}

func hasDup(l []string) bool {
	seen := map[string]bool{}
	for _, s := range l {
		k := strings.TrimSuffix(s, "/")
		if seen[k] {
			return true
		}
		seen[k] = true
	}
	return false
}

// classifyDiff gives a narrow name to the first difference between the expected and the
// actual remote tree: which path kind differs and which operation of the history last
// addressed that path.
func classifyDiff(want, got map[string]string, hist []treefs.Op, r0 map[string]string, everRemote map[string]map[string]bool) (string, string) {
	hist = absOps(hist)
	var paths []string
	for p := range want {
		if got[p] != want[p] {
			paths = append(paths, p)
		}
	}
	for p := range got {
		if _, ok := want[p]; !ok {
			paths = append(paths, p)
		}
	}
	sort.Strings(paths)
	if len(paths) == 0 {
		return "structure", "remote tree is malformed"
	}
	p := paths[0]
	how := "content-differs"
	nodeKind := func(v string) string {
		if v == "dir" {
			return "dir"
		}
		return "file"
	}
	var nk string
	if _, ok := got[p]; !ok {
		how, nk = "missing-on-remote", nodeKind(want[p])
	} else if _, ok := want[p]; !ok {
		how, nk = "unexpected-on-remote", nodeKind(got[p])
	} else {
		nk = nodeKind(want[p])
	}
	origin := "initial-remote"
	if _, ok := r0[p]; !ok {
		if _, ok := r0[p+"/"]; !ok {
			origin = "created-by-cache"
		}
	}
	opk := "none"
	var seqKinds []string
	for _, o := range hist {
		if o.Kind == "Commit" {
			seqKinds = append(seqKinds, "Commit")
			continue
		}
		for _, a := range []string{o.P, o.Q} {
			if a == "" {
				continue
			}
			if a == p || strings.HasPrefix(p, a+"/") || strings.HasPrefix(a, p+"/") {
				opk = o.Kind
				seqKinds = append(seqKinds, o.Kind)
				break
			}
		}
	}
	why := fmt.Sprintf("first differing path %q (%s, %s); operations that addressed it: %v", p, how, origin, seqKinds)
	under := func(a, b string) bool { return a == b || strings.HasPrefix(a, b+"/") }
	// root causes, most specific first
	if how == "unexpected-on-remote" && nk == "dir" && lastExact(hist, p) == "Remove" {
		// the directory was on the remote (initially or through an earlier Commit) when it was removed
		return "remove-of-remote-directory-not-committed", why
	}
	for _, q := range remoteFileAsDir(hist, func(q string) bool { return len(everRemote[q]) > 0 }) {
		if under(p, q) {
			return "remote-file-used-as-directory", why
		}
	}
	removed := map[string]bool{}
	// staleOf maps a path to the remote path whose (removed, but still readable) bytes a wrongly
	// accepted copy would have put there: removed paths map to themselves, destinations of such
	// copies to the copy's source, transitively
	staleRoot := map[string]string{}
	staleOf := func(path string) (string, bool) {
		best, bestLen := "", -1
		for root, org := range staleRoot {
			if under(path, root) && len(root) > bestLen {
				best, bestLen = org+strings.TrimPrefix(path, root), len(root)
			}
		}
		return best, bestLen >= 0
	}
	for _, o := range hist {
		switch o.Kind {
		case "Remove", "RemoveAll":
			removed[o.P] = true
			staleRoot[o.P] = o.P
		case "CopyFile", "CopyDirectory", "Copy":
			srcRemoved := false
			for r := range removed {
				if under(o.P, r) || under(r, o.P) {
					srcRemoved = true
				}
			}
			if srcRemoved {
				// what such a copy created is itself a source the overlay never had
				removed[o.Q] = true
				if org, ok := staleOf(o.P); ok {
					staleRoot[o.Q] = org
				}
			}
			if how == "unexpected-on-remote" && srcRemoved && (under(p, o.Q) || under(o.Q, p)) {
				return "copy-from-a-removed-remote-source-was-accepted", why
			}
			if how == "content-differs" && srcRemoved && under(p, o.Q) {
				// the same root cause seen on a destination that already existed: the accepted copy
				// overwrote it with the REMOTE's bytes of the removed source (and only then)
				if org, ok := staleOf(p); ok {
					if everRemote[org][got[p]] {
						return "copy-from-a-removed-remote-source-was-accepted", why
					}
				}
			}
			if how == "missing-on-remote" && under(p, o.Q) && o.Kind != "CopyFile" {
				return "directory-copy-incomplete-on-remote", why
			}
		}
	}
	return fmt.Sprintf("%s-%s/%s/last-op:%s", how, nk, origin, opk), why
}

// lastExact returns the kind of the last operation whose first argument is exactly p.
func lastExact(hist []treefs.Op, p string) string {
	k := ""
	for _, o := range hist {
		if o.Kind != "Commit" && o.P == p && o.Q == "" {
			k = o.Kind
		}
	}
	return k
}

func min(a, b int) int {
	if a < b {
		return a
	}
	return b
}

// ---- enumeration ----

func histories(alpha []treefs.Op, depth int, f func(h []treefs.Op)) {
	var rec func(cur []treefs.Op)
	rec = func(cur []treefs.Op) {
		if len(cur) > 0 {
			f(cur)
		}
		if len(cur) == depth {
			return
		}
		for _, o := range alpha {
			if o.Kind == "Commit" && (len(cur) == 0 || cur[len(cur)-1].Kind == "Commit") {
				continue
			}
			rec(append(append([]treefs.Op{}, cur...), o))
		}
	}
	rec(nil)
}

func runCase(cs Case, c06, c07 bool) runOut {
	var out runOut
	res := fsx.RunSeq(func() { out = execute(cs, c06, c07) })
	if res.Deadlock || res.Horizon {
		out.findings = append(out.findings, Finding{"C06", "blocks-forever", "operations return", fmt.Sprint(res.Blocked)})
	}
	if len(res.Panics) > 0 {
		out.findings = append(out.findings, Finding{"C06", "panic", "no panic", res.Panics[0].Value + "\n" + res.Panics[0].Stack})
	}
	return out
}

func runMapOrders(cs Case, c06, c07 bool, bound int, c *fw.Ctx, onFinding func(cs Case, f Finding)) {
	opt := explore.Options{Bound: bound, MapPerm: true, NoShard: true, Deadline: c.Deadline, MaxSteps: 2000000, MapCost: 1, OnlyKinds: []int{vsched.KindMap}}
	var out runOut
	st, err := explore.Explore(opt, func() { out = execute(cs, c06, c07) }, func(x *explore.Exec) bool {
		for _, f := range out.findings {
			cc := cs
			cc.MapSched = x.Choices
			onFinding(cc, f)
		}
		return true
	})
	if err != nil {
		c.Infra("map-order exploration: %v", err)
		return
	}
	c.R.Evaluations += st.Execs
	c.Count("map_order_executions", st.Execs)
	if st.Capped {
		c.NotExhaustive("map-order exploration capped")
	}
}

func run(prop string) func(c *fw.Ctx) {
	return func(c *fw.Ctx) {
		c06, c07 := prop == "C06", prop == "C07"
		alpha := alphabet()
		depth := 3
		if c.Thorough() {
			depth = 4
		}
		c.R.Info["alphabet"] = len(alpha)
		c.R.Info["history_depth"] = depth
		c.R.Info["initial_remotes"] = len(remotes)
		onFinding := func(cs Case, f Finding) {
			if f.Kind == "harness" {
				c.Infra("%s", f.Detail)
				return
			}
			if f.Prop != prop {
				return
			}
			sg := prop + "/" + f.Kind
			if c.Violated(sg) {
				c.Violate(&fw.Violation{Signature: sg})
				return
			}
			c.Violate(&fw.Violation{Property: prop, Clause: f.Clause, Signature: sg,
				Detail:  fmt.Sprintf("initial remote %v (disk=%v)\nhistory %s, then Commit, Commit\n%s", remotes[cs.Remote], cs.Disk, fsx.HistString(cs.History), f.Detail),
				Witness: fw.JSON(cs)})
		}
		item := 0
		kinds := []bool{false}
		if c.Thorough() {
			kinds = []bool{false, true}
		}
		for _, disk := range kinds {
			for ri := range remotes {
				d := depth
				if disk {
					d = depth - 1
				}
				if c07 && depth == 4 && !disk && ri != 2 {
					d = 3 // C07 thorough: the read sweeps make depth 4 affordable on the richest remote only
				}
				stop := false
				histories(alpha, d, func(h []treefs.Op) {
					item++
					if stop || !c.Mine(item) {
						return
					}
					if c.Expired() {
						c.NotExhaustive("deadline")
						stop = true
						return
					}
					cs := Case{Remote: ri, Disk: disk, History: h}
					out := runCase(cs, c06, c07)
					if out.skipped {
						c.Count("histories_with_unspecified_op_skipped", 1)
						return
					}
					c.R.Evaluations++
					c.R.States++ // every history is a distinct journal state of the cache
					c.R.Transitions += int64(len(h) + 2)
					for _, f := range out.findings {
						onFinding(cs, f)
					}
					if len(out.findings) > 0 {
						c.Count("violating_histories", 1)
					}
					if item%9973 == 1 {
						c.Sample(map[string]interface{}{"initial_remote": remotes[ri], "history": fsx.HistString(h)})
					}
					// C06 (iii): every failing remote call during the final Commit, for short histories
					if c06 && len(h) <= 2 && len(out.findings) == 0 {
						probe := cs
						probe.FailAt = -1
						n := runCase(probe, true, false).commitCalls
						for k := 1; k <= n; k++ {
							fc := cs
							fc.FailAt = k
							fo := runCase(fc, true, false)
							c.R.Evaluations++
							c.Count("commit_fault_positions", 1)
							for _, f := range fo.findings {
								onFinding(fc, f)
							}
						}
					}
					// map iteration order of the journals as an explored choice (short histories)
					if c06 && len(h) <= 2 && len(out.findings) == 0 {
						b := 1
						if c.Thorough() {
							b = 2
						}
						runMapOrders(cs, c06, c07, b, c, onFinding)
					}
				})
			}
		}
		c.R.Traces = c.R.States
		c.R.Distinct = c.R.Evaluations
	}
}

func replay(prop string) func(w json.RawMessage) (*fw.Violation, error) {
	return func(w json.RawMessage) (*fw.Violation, error) {
		var cs Case
		if err := json.Unmarshal(w, &cs); err != nil {
			return nil, err
		}
		var out runOut
		if len(cs.MapSched) > 0 {
			opt := explore.Options{Bound: -1, MapPerm: true, MaxSteps: 2000000}
			if _, err := explore.RunOnce(&opt, cs.MapSched, func() { out = execute(cs, prop == "C06", prop == "C07") }); err != nil {
				return nil, err
			}
		} else {
			out = runCase(cs, prop == "C06", prop == "C07")
		}
		for _, f := range out.findings {
			if f.Prop == prop {
				return &fw.Violation{Property: prop, Clause: f.Clause, Signature: prop + "/" + f.Kind, Detail: f.Detail}, nil
			}
		}
		return nil, nil
	}
}

func init() {
	rule := "all histories of <=3 (quick) / <=4 (thorough) cache operations over a 31-entry alphabet (WriteFile, Writer, MkdirAll, Remove, RemoveAll, CopyFile, CopyDirectory, Copy on overlapping paths, and intermediate Commits) x 4 initial remote trees (thorough: memory and disk remotes), each followed by Commit, Commit; only operations whose outcome class on the overlay model is MUST-OK or MUST-FAIL are issued (histories containing an unspecified one are skipped and counted); short histories additionally with every journal map-iteration order (explorer choice) and, for C06, every failing remote call during Commit followed by a fault-free Commit. states = histories (every history is a distinct private journal state), transitions = cache operations executed"
	fw.Register(&fw.Check{ID: "C06", Level: "model_checking", Rule: rule, Run: run("C06"), Replay: replay("C06"),
		Assumptions: []string{"the expected remote is the fold of the operations the cache reported successful, applied by the tree model to the initial remote (an operation the remote itself would refuse changes nothing)", "a remote bool query that 'fails' by answering false is not a reportable failure"}})
	fw.Register(&fw.Check{ID: "C07", Level: "model_checking", Rule: rule + "; after every mutating operation every read-type operation (IsExist/IsFile/IsDir/ReadFile/Reader/ReadDir/Lstat) on an 18-path pool, on the cache and on child views of it, is compared with the overlay model", Run: run("C07"), Replay: replay("C07"),
		Assumptions: []string{"overlay model = initial remote with all operations the cache reported successful applied"}})
}
