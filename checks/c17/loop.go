package c17

import (
	"fmt"
	"strings"

	"verif/checks/pipx"
	"verif/explore"
	"verif/fw"
)

// "Reading stops exactly at the command's newline" at the level of the command loop (anchored in
// termexec/run.go): a command that consumes input of its own finds the bytes that follow its line,
// and the loop then continues with the command after them - under every schedule of the loop's
// reader goroutine, the command and the caller.

// LoopSpec is one command-loop program.
type LoopSpec struct {
	Script string `json:"script"`
	Prompt string `json:"prompt"`
	Want   string `json:"want"`
	Bound  int    `json:"bound"`
}

type loopObs struct {
	w     *pipx.World
	err   error
	infra string
	done  bool
}

func loopPrograms(thorough bool) []LoopSpec {
	b := 2
	if thorough {
		b = 3
	}
	var ps []LoopSpec
	for _, prompt := range []string{"", "> "} {
		ps = append(ps,
			LoopSpec{"probe --id=a --readline=1\nPAYLOAD LINE x=y\nprobe --id=b k=v\n", prompt, "begin(a) payload=PAYLOAD LINE x=y(a) end(a) begin(b) end(b)", b},
			LoopSpec{"probe --id=a --yield=1 --readline=1\nprobe --id=not-a-command\nprobe --id=b\n", prompt, "begin(a) payload=probe --id=not-a-command(a) end(a) begin(b) end(b)", b},
			LoopSpec{"probe --id=a\nprobe --id=b --readline=1\n\"quoted payload\nprobe --id=c\n", prompt, "begin(a) end(a) begin(b) payload=\"quoted payload(b) end(b) begin(c) end(c)", b},
			LoopSpec{"probe --id=a --readline=1\nlast line without newline", prompt, "begin(a) payload=last line without newline(a) end(a)", b},
		)
	}
	return ps
}

func (sp LoopSpec) name() string {
	return fmt.Sprintf("loop/prompt=%q/%q", sp.Prompt, sp.Script)
}

func mkLoop(sp LoopSpec) *explore.Program {
	o := &loopObs{}
	return &explore.Program{Prop: "C17", Name: sp.name(), Spec: sp,
		Opt: explore.Options{Bound: sp.Bound, Focus: []string{"terminal/termexec", "app/gio", "checks/pipx", "checks/c17"}, MaxSteps: 20000, HBR: true, NoShard: true},
		Body: func() {
			*o = loopObs{}
			w, err := pipx.New()
			if err != nil {
				o.infra = err.Error()
				return
			}
			o.w = w
			o.err = w.RunScriptPrompt(sp.Script, nil, sp.Prompt)
			o.done = true
		},
		Judge: func(x *explore.Exec) *explore.Verdict {
			if o.infra != "" {
				return &explore.Verdict{Kind: "harness", Detail: o.infra}
			}
			if !o.done {
				return &explore.Verdict{Kind: "loop/not-finished", Clause: "always terminates", Detail: "the command loop never returned"}
			}
			var l []string
			for _, e := range o.w.Events {
				l = append(l, fmt.Sprintf("%s(%s)", e.Kind, e.ID))
			}
			got := strings.Join(l, " ")
			if o.err != nil || got != sp.Want {
				return &explore.Verdict{Kind: "loop/next-reader-does-not-find-the-next-line", Clause: "reading stops exactly at the command's newline so the next call returns the next command",
					Detail: fmt.Sprintf("script %q (prompt %q): the loop returned %v and executed\n  %s\nexpected\n  %s", sp.Script, sp.Prompt, o.err, got, sp.Want)}
			}
			return nil
		},
		Outcome: func() string { return fmt.Sprint(len(o.w.Events)) },
	}
}

func runLoops(c *fw.Ctx) {
	ps := loopPrograms(c.Thorough())
	c.R.Info["command_loop_programs"] = len(ps)
	for i, sp := range ps {
		if !c.Mine(3000003 + i) {
			continue
		}
		if c.Expired() {
			c.NotExhaustive("deadline in the command-loop part")
			return
		}
		if !explore.RunProgram(c, mkLoop(sp)) && c.R.InfraError != "" {
			return
		}
	}
}
