// Package c17 decides C17: command-line splitting is total, byte-preserving and reversible
// for quoted input. Engine: exhaustive enumeration of all byte strings up to a length bound
// over the alphabet of significant bytes, plus all rendered argument lists from a pool.
package c17

import (
	"encoding/json"
	"fmt"
	"strings"

	"github.com/goatcms/goatcore/app/scope/argscope"
	"github.com/goatcms/goatcore/app/scope/datascope"
	"github.com/goatcms/goatcore/varutil"

	"verif/explore"
	"verif/fw"
)

var sigma = []byte{' ', '\t', '\n', '"', '\\', '=', '<', 'a', 0xff}

// sigma2: bytes that are NOT significant to the splitter but are "blank-like" to other tokenisers
// (ASCII control whitespace, NUL, and the bytes of U+0085, U+00A0, U+3000): they are word bytes.
var sigma2 = []byte{' ', '\t', 'a', '\r', '\v', '\f', 0x00, 0xc2, 0x85, 0xa0, 0xe3, 0x80}

type call struct {
	Args  []string
	EOF   bool
	Err   string
	Panic string
}

// readAll calls ReadArguments repeatedly on one reader until eof or error.
func readAll(s string) (calls []call, leftover int) {
	rd := strings.NewReader(s)
	for i := 0; i < len(s)+3; i++ {
		var c call
		func() {
			defer func() {
				if p := recover(); p != nil {
					c.Panic = fmt.Sprint(p)
				}
			}()
			args, eof, err := varutil.ReadArguments(rd)
			c.Args, c.EOF = args, eof
			if err != nil {
				c.Err = err.Error()
			}
		}()
		calls = append(calls, c)
		if c.Panic != "" || c.Err != "" || c.EOF {
			return calls, rd.Len()
		}
	}
	return calls, -1 // never reached eof: no progress
}

func fields(line string) []string {
	return strings.FieldsFunc(line, func(r rune) bool { return r == ' ' || r == '\t' })
}

// fieldsBytes splits on blanks byte-wise (strings.FieldsFunc would decode 0xff as RuneError but keeps bytes).
func fieldsBytes(line string) []string {
	var out []string
	cur := []byte{}
	in := false
	for i := 0; i < len(line); i++ {
		b := line[i]
		if b == ' ' || b == '\t' {
			if in {
				out = append(out, string(cur))
				cur, in = []byte{}, false
			}
			continue
		}
		cur = append(cur, b)
		in = true
	}
	if in {
		out = append(out, string(cur))
	}
	return out
}

type finding struct {
	kind, clause, detail string
}

func q(s string) string { return fmt.Sprintf("%q", s) }

// checkString applies every oracle that is defined for the raw string s.
func checkString(s string) *finding {
	calls, left := readAll(s)
	for i, c := range calls {
		if c.Panic != "" {
			kind := "panic"
			if strings.Contains(c.Panic, "index out of range [-1]") {
				kind = "panic/index-minus-one"
			}
			return &finding{kind, "splitting any byte string never panics", fmt.Sprintf("input %s: call %d panicked: %s", q(s), i+1, c.Panic)}
		}
	}
	if left == -1 {
		return &finding{"no-termination", "always terminates with arguments or an error", fmt.Sprintf("input %s: %d calls without reaching the end of the input", q(s), len(calls))}
	}
	// byte preservation in every context (bare, escaped, quoted, heredoc): the splitter never
	// invents a non-ASCII byte - each byte >= 0x80 occurs in the arguments at most as often as in the input
	var inCnt, outCnt [256]int
	for i := 0; i < len(s); i++ {
		inCnt[s[i]]++
	}
	for _, c := range calls {
		for _, a := range c.Args {
			for i := 0; i < len(a); i++ {
				outCnt[a[i]]++
			}
		}
	}
	for b := 0x80; b < 256; b++ {
		if outCnt[b] > inCnt[b] {
			return &finding{"non-ascii-byte-changed", "words come back unchanged byte-for-byte (including non-ASCII bytes)", fmt.Sprintf("input %s (% x): the arguments contain byte 0x%02x %d times, the input %d times: %q", q(s), s, b, outCnt[b], inCnt[b], calls)}
		}
	}
	// the string entry point is the reader entry point applied to the whole string
	if f := checkSplitAgrees(s, calls[0]); f != nil {
		return f
	}
	special := strings.ContainsAny(s, "\"\\") || strings.Contains(s, "=<<")
	if !special {
		// plain words: each line's blank-separated fields, byte for byte
		lines := strings.Split(s, "\n")
		if len(calls) != len(lines) {
			return &finding{"line-boundary", "reading stops exactly at the command's newline so the next call returns the next command", fmt.Sprintf("input %s has %d lines but took %d calls", q(s), len(lines), len(calls))}
		}
		for i, ln := range lines {
			want := fieldsBytes(ln)
			got := calls[i].Args
			if calls[i].Err != "" {
				return &finding{"plain-words-error", "words separated by blanks come back unchanged", fmt.Sprintf("input %s: call %d failed: %s", q(s), i+1, calls[i].Err)}
			}
			if len(got) != len(want) {
				return &finding{"plain-words-count", "words separated by blanks come back unchanged", fmt.Sprintf("input %s line %d: got %d words %q, want %d %q", q(s), i+1, len(got), got, len(want), want)}
			}
			for j := range want {
				if got[j] != want[j] {
					kind := "plain-word-changed"
					if strings.Contains(want[j], "\xff") {
						kind = "non-ascii-byte-changed"
					}
					return &finding{kind, "words come back unchanged byte-for-byte (including non-ASCII bytes)", fmt.Sprintf("input %s: word %d is %q (% x), want %q (% x)", q(s), j, got[j], got[j], want[j], want[j])}
				}
			}
			if wantEOF := i == len(lines)-1; calls[i].EOF != wantEOF {
				return &finding{"eof-flag", "reading stops exactly at the command's newline", fmt.Sprintf("input %s: call %d eof=%v want %v", q(s), i+1, calls[i].EOF, wantEOF)}
			}
		}
		return nil
	}
	// the COMMAND boundaries are defined for every string without quotes and '<' (no heredoc opener in any spelling), whatever its
	// backslashes mean for the words: a newline ends the command unless an unescaped backslash stands
	// DIRECTLY in front of it (a run of an odd number of backslashes)
	if !strings.ContainsAny(s, "\"<") {
		ends := 0
		for i := 0; i < len(s); i++ {
			if s[i] != '\n' {
				continue
			}
			run := 0
			for j := i - 1; j >= 0 && s[j] == '\\'; j-- {
				run++
			}
			if run%2 == 0 {
				ends++
			}
		}
		if len(calls) != ends+1 {
			return &finding{"command-boundary", "a backslash-newline continues the line; reading stops exactly at the command's newline so the next call returns the next command", fmt.Sprintf("input %s: %d newlines end a command (not directly preceded by an unescaped backslash), so %d calls are needed - it took %d: %q", q(s), ends, ends+1, len(calls), calls)}
		}
	}
	// backslash only in front of a plain letter or a newline (continuation), no quotes/heredoc:
	// the argument COUNT is still defined (content of such words is unspecified)
	if joined, ok := resolveBackslashes(s); ok && !strings.ContainsAny(s, "\"") && !strings.Contains(s, "=<<") {
		// joined: escaped letters and escaped backslashes are ordinary word bytes, a continuation
		// (an UNESCAPED backslash directly in front of the newline) joins the lines
		lines := strings.Split(joined, "\n")
		if len(calls) != len(lines) {
			return &finding{"continuation-line-boundary", "a backslash-newline continues the line; reading stops at the command's newline", fmt.Sprintf("input %s: %d logical lines but %d calls", q(s), len(lines), len(calls))}
		}
		for i, ln := range lines {
			want := fieldsBytes(ln)
			if calls[i].Err != "" {
				return &finding{"backslash-word-error", "always terminates with arguments or an error", fmt.Sprintf("input %s: %s", q(s), calls[i].Err)}
			}
			if len(calls[i].Args) != len(want) {
				return &finding{"backslash-glues-or-splits-arguments", "words separated by blanks come back as separate arguments", fmt.Sprintf("input %s logical line %d: got %d arguments %q, want %d (fields %q)", q(s), i+1, len(calls[i].Args), calls[i].Args, len(want), want)}
			}
		}
	}
	return nil
}

// checkInterleaved splits s1 and s2 from two readers call by call in alternation.
func checkInterleaved(s1, s2 string, alone1 []call) *finding {
	alone2, _ := readAll(s2)
	for _, c := range append(append([]call{}, alone1...), alone2...) {
		if c.Panic != "" {
			return nil // reported by the single-string pass
		}
	}
	r1, r2 := strings.NewReader(s1), strings.NewReader(s2)
	one := func(rd *strings.Reader) (c call) {
		defer func() {
			if p := recover(); p != nil {
				c.Panic = fmt.Sprint(p)
			}
		}()
		args, eof, err := varutil.ReadArguments(rd)
		c.Args, c.EOF = args, eof
		if err != nil {
			c.Err = err.Error()
		}
		return
	}
	same := func(a, b call) bool {
		if a.Err != b.Err || a.EOF != b.EOF || a.Panic != b.Panic || len(a.Args) != len(b.Args) {
			return false
		}
		for i := range a.Args {
			if a.Args[i] != b.Args[i] {
				return false
			}
		}
		return true
	}
	type kept struct {
		live []string // the slice as handed out
		copy []string
	}
	var retained []kept
	i1, i2 := 0, 0
	for i1 < len(alone1) || i2 < len(alone2) {
		if i1 < len(alone1) {
			got := one(r1)
			if !same(got, alone1[i1]) {
				return &finding{"interleaved-call-differs", "splitting is a function of the reader's bytes (the next call returns the next command)", fmt.Sprintf("inputs %s and %s split in alternation: call %d on the first returned %+v, alone it returns %+v", q(s1), q(s2), i1+1, got, alone1[i1])}
			}
			retained = append(retained, kept{got.Args, append([]string{}, got.Args...)})
			i1++
		}
		if i2 < len(alone2) {
			got := one(r2)
			if !same(got, alone2[i2]) {
				return &finding{"interleaved-call-differs", "splitting is a function of the reader's bytes (the next call returns the next command)", fmt.Sprintf("inputs %s and %s split in alternation: call %d on the second returned %+v, alone it returns %+v", q(s1), q(s2), i2+1, got, alone2[i2])}
			}
			retained = append(retained, kept{got.Args, append([]string{}, got.Args...)})
			i2++
		}
	}
	for _, k := range retained {
		for i := range k.copy {
			if k.live[i] != k.copy[i] {
				return &finding{"returned-arguments-changed-later", "arguments come back unchanged", fmt.Sprintf("inputs %s and %s: an argument list handed out earlier changed from %q to %q", q(s1), q(s2), k.copy, k.live)}
			}
		}
	}
	return nil
}

// checkSplitAgrees: SplitArguments(s) must give what the first ReadArguments call on s gives.
func checkSplitAgrees(s string, first call) *finding {
	var c call
	func() {
		defer func() {
			if p := recover(); p != nil {
				c.Panic = fmt.Sprint(p)
			}
		}()
		args, eof, err := varutil.SplitArguments(s)
		c.Args, c.EOF = args, eof
		if err != nil {
			c.Err = err.Error()
		}
	}()
	if c.Panic != "" {
		return &finding{"panic", "splitting any byte string never panics", fmt.Sprintf("SplitArguments(%s) panicked: %s", q(s), c.Panic)}
	}
	same := (c.Err == "") == (first.Err == "") && len(c.Args) == len(first.Args)
	if same && c.Err == "" {
		same = c.EOF == first.EOF
		for i := range c.Args {
			if c.Args[i] != first.Args[i] {
				same = false
			}
		}
	}
	if !same {
		return &finding{"split-differs-from-read", "words separated by blanks come back unchanged byte-for-byte (whichever entry point splits the line)",
			fmt.Sprintf("input %s: SplitArguments = %q eof=%v err=%q, ReadArguments = %q eof=%v err=%q", q(s), c.Args, c.EOF, c.Err, first.Args, first.EOF, first.Err)}
	}
	return nil
}

// resolveBackslashes rewrites s for the argument-count reference: "\\a" and an escaped backslash
// become the word byte 'a', a continuation is removed; ok=false when s holds a backslash whose
// meaning the statement leaves open.
func resolveBackslashes(s string) (string, bool) {
	var out []byte
	for i := 0; i < len(s); i++ {
		if s[i] != '\\' {
			out = append(out, s[i])
			continue
		}
		if i+1 >= len(s) {
			return "", false
		}
		switch s[i+1] {
		case 'a', '\\':
			out = append(out, 'a')
			i++
		case '\n':
			// continuation in the middle of blanks only: "x \<nl>y" (unambiguous argument count)
			if i == 0 || (s[i-1] != ' ' && s[i-1] != '\t') {
				return "", false
			}
			if i+2 >= len(s) || s[i+2] == ' ' || s[i+2] == '\t' || s[i+2] == '\n' || s[i+2] == '\\' {
				return "", false
			}
			i++
		default:
			return "", false
		}
	}
	return string(out), true
}

// backslashesBenign: every backslash is followed by 'a' or by a newline that is followed by
// a non-blank, and is not itself preceded by a backslash.
func backslashesBenign(s string) bool {
	for i := 0; i < len(s); i++ {
		if s[i] != '\\' {
			continue
		}
		if i+1 >= len(s) {
			return false
		}
		switch s[i+1] {
		case 'a':
			i++
		case '\n':
			// continuation in the middle of blanks only: "x \<nl>y" (unambiguous argument count)
			if i == 0 || (s[i-1] != ' ' && s[i-1] != '\t') {
				return false
			}
			if i+2 >= len(s) || s[i+2] == ' ' || s[i+2] == '\t' || s[i+2] == '\n' || s[i+2] == '\\' {
				return false
			}
			i++
		default:
			return false
		}
	}
	return true
}

// ---- rendered argument lists ----

var pool = []string{"a", "a b", "a\"b", "", "k=v", "\xff", "k=line1\nline2", "x=two words", "a\tb", "=", "<", "k=<x", "k=1\u00a0m", "x\ry\vz"}

func render(arg string, form int) (string, bool) {
	switch form {
	case 0: // bare
		if arg == "" || strings.ContainsAny(arg, " \t\n\"\\") || strings.Contains(arg, "=<<") {
			return "", false
		}
		return arg, true
	case 1: // quoted
		if strings.ContainsAny(arg, "\\") {
			return "", false
		}
		return "\"" + strings.ReplaceAll(arg, "\"", "\\\"") + "\"", true
	case 2: // heredoc for name=text
		i := strings.Index(arg, "=")
		if i <= 0 {
			return "", false
		}
		name, text := arg[:i], arg[i+1:]
		if strings.ContainsAny(name, " \t\n\"\\<") || strings.Contains(text, "\nEOF") || text != strings.Trim(text, " \t") || text == "" {
			return "", false
		}
		return name + "=<<EOF\n" + text + "\nEOF", true
	}
	return "", false
}

var seps = []string{" ", "\t", "  ", " \\\n"}

type listWit struct {
	Args  []string `json:"args"`
	Forms []int    `json:"forms"`
	Sep   int      `json:"sep"`
}

func checkList(w listWit) *finding {
	var parts []string
	for i, a := range w.Args {
		r, ok := render(a, w.Forms[i])
		if !ok {
			return nil
		}
		parts = append(parts, r)
	}
	// a heredoc must be the last thing on its physical line
	for i, f := range w.Forms[:len(w.Forms)] {
		if f == 2 && i != len(w.Forms)-1 {
			return nil
		}
	}
	line := strings.Join(parts, seps[w.Sep]) + "\n" + "a a\n"
	calls, _ := readAll(line)
	for _, c := range calls {
		if c.Panic != "" {
			return &finding{"rendered-panic", "never panics", fmt.Sprintf("rendered line %s: %s", q(line), c.Panic)}
		}
	}
	if len(calls) < 2 || calls[0].Err != "" {
		e := ""
		if len(calls) > 0 {
			e = calls[0].Err
		}
		return &finding{"rendered-error", "a rendered argument list splits back", fmt.Sprintf("rendered line %s: error %q", q(line), e)}
	}
	got := calls[0].Args
	if len(got) != len(w.Args) {
		return &finding{"rendered-count/" + formNames(w.Forms), "argument lists rendered with the reference quoting split back to the original list", fmt.Sprintf("rendered %s: got %q want %q", q(line), got, w.Args)}
	}
	for i := range got {
		if got[i] != w.Args[i] {
			kind := "rendered-content/" + [...]string{"bare", "quoted", "heredoc"}[w.Forms[i]]
			if strings.Contains(w.Args[i], "\xff") {
				kind += "/non-ascii"
			}
			return &finding{kind, "quoted content comes back with blanks preserved and escaped quotes unescaped; heredoc text comes back trimmed", fmt.Sprintf("rendered %s: argument %d is %q want %q", q(line), i, got[i], w.Args[i])}
		}
	}
	if len(calls[1].Args) != 2 || calls[1].Args[0] != "a" || calls[1].Args[1] != "a" {
		return &finding{"rendered-next-command", "reading stops exactly at the command's newline so the next call returns the next command", fmt.Sprintf("rendered %s: second call returned %q (err %q), want [a a]", q(line), calls[1].Args, calls[1].Err)}
	}
	return nil
}

func formNames(f []int) string {
	var l []string
	for _, x := range f {
		l = append(l, [...]string{"bare", "quoted", "heredoc"}[x])
	}
	return strings.Join(l, "+")
}

// ---- InjectArgs ----

func checkInject(args []string) *finding {
	ds := datascope.New(map[interface{}]interface{}{})
	var perr string
	func() {
		defer func() {
			if p := recover(); p != nil {
				perr = fmt.Sprint(p)
			}
		}()
		if err := argscope.InjectArgs(ds, args...); err != nil {
			perr = "error: " + err.Error()
		}
	}()
	if perr != "" {
		return &finding{"inject-failed", "named arguments are mapped to keys and positional ones to $0,$1,...", fmt.Sprintf("InjectArgs(%q): %s", args, perr)}
	}
	want := map[string]string{}
	pos := 0
	var rest []string
	sepSeen := false
	for _, a := range args {
		if sepSeen {
			rest = append(rest, a)
			continue
		}
		if a == "--" {
			sepSeen = true
			continue
		}
		if i := strings.Index(a, "="); i >= 0 {
			t := strings.TrimPrefix(strings.TrimPrefix(a, "-"), "-")
			j := strings.Index(t, "=")
			if j < 0 {
				continue
			}
			want[t[:j]] = t[j+1:]
			_ = i
			continue
		}
		want[fmt.Sprintf("$%d", pos)] = a
		pos++
	}
	for k, v := range want {
		if got, _ := ds.Value(k).(string); got != v {
			return &finding{"inject-mapping", "named arguments are mapped to keys and positional ones to $0,$1,... in order", fmt.Sprintf("InjectArgs(%q): key %q = %v, want %q", args, k, ds.Value(k), v)}
		}
	}
	if extra := ds.Value(fmt.Sprintf("$%d", pos)); extra != nil {
		return &finding{"inject-mapping", "named arguments are mapped to keys and positional ones to $0,$1,... in order", fmt.Sprintf("InjectArgs(%q): %d positional arguments, but key $%d = %v", args, pos, pos, extra)}
	}
	gotRest, _ := ds.Value("--").([]string)
	if strings.Join(gotRest, "\x00") != strings.Join(rest, "\x00") {
		return &finding{"inject-separator", "arguments after '--' are kept apart", fmt.Sprintf("InjectArgs(%q): '--' holds %q, want %q", args, gotRest, rest)}
	}
	return nil
}

// longLists: argument lists with 0..max positional arguments ("$0,$1,... in order" for indices of more
// than one digit), alone, with a named argument after every positional one, and with a '--' tail.
func longLists(max int, f func(args []string)) {
	for n := 0; n <= max; n++ {
		var plain, mixed []string
		for i := 0; i < n; i++ {
			w := fmt.Sprintf("w%d", i)
			plain = append(plain, w)
			mixed = append(mixed, w, fmt.Sprintf("k%d=v%d", i, i))
		}
		f(plain)
		f(mixed)
		f(append(append([]string{}, plain...), "--", "tail", "k=z"))
	}
}

// checkHeredoc: a heredoc argument comes back as the text between the marker lines and the
// next call returns the next command.
func checkHeredoc(body string) *finding {
	line := "cmd k=<<EOF\n" + body + "\nEOF\na a\n"
	calls, _ := readAll(line)
	for _, c := range calls {
		if c.Panic != "" {
			return &finding{"heredoc-panic", "never panics", fmt.Sprintf("input %s: %s", q(line), c.Panic)}
		}
	}
	if len(calls) < 2 || calls[0].Err != "" {
		e := ""
		if len(calls) > 0 {
			e = calls[0].Err
		}
		return &finding{"heredoc-not-terminated", "a heredoc argument comes back as the text between the marker lines", fmt.Sprintf("input %s: first call failed (%q) - the closing marker line was not recognised", q(line), e)}
	}
	got := calls[0].Args
	if len(got) != 2 || got[0] != "cmd" || got[1] != "k="+body {
		return &finding{"heredoc-content", "a heredoc argument comes back as the text between the marker lines (trimmed of surrounding blanks)", fmt.Sprintf("input %s: got %q, want [cmd %q]", q(line), got, "k="+body)}
	}
	if len(calls[1].Args) != 2 || calls[1].Args[0] != "a" || calls[1].Args[1] != "a" {
		return &finding{"heredoc-next-command", "reading stops exactly at the command's newline so the next call returns the next command", fmt.Sprintf("input %s: second call returned %q (err %q)", q(line), calls[1].Args, calls[1].Err)}
	}
	return nil
}

type witness struct {
	Heredoc *string `json:"heredoc_body_hex,omitempty"`
	Raw    *string  `json:"raw_hex,omitempty"`
	Pair   []string `json:"interleaved_pair_hex,omitempty"`
	List   *listWit `json:"list,omitempty"`
	Inject []string `json:"inject,omitempty"`
}

func hexs(s string) *string { h := fmt.Sprintf("%x", s); return &h }

func run(c *fw.Ctx) {
	runLoops(c)
	if c.R.InfraError != "" {
		return
	}
	maxLen := 7
	if c.Thorough() {
		maxLen = 9
	}
	c.R.Info["alphabet"] = fmt.Sprintf("%q", string(sigma))
	c.R.Info["max_length"] = maxLen
	report := func(f *finding, w witness) {
		sg := "C17/" + f.kind
		if c.Violated(sg) {
			c.Violate(&fw.Violation{Signature: sg})
			return
		}
		c.Violate(&fw.Violation{Property: "C17", Clause: f.clause, Signature: sg, Detail: f.detail, Witness: fw.JSON(w)})
	}
	// A/B: all strings up to maxLen, sharded by the first two symbols
	item := 0
	buf := make([]byte, 0, maxLen)
	var rec func()
	var distinctOutcomes = map[string]bool{}
	rec = func() {
		s := string(buf)
		c.R.Evaluations++
		if f := checkString(s); f != nil {
			report(f, witness{Raw: hexs(s)})
		}
		if len(buf) == maxLen {
			return
		}
		for _, b := range sigma {
			buf = append(buf, b)
			rec()
			buf = buf[:len(buf)-1]
		}
	}
	for _, b1 := range sigma {
		for _, b2 := range sigma {
			item++
			if !c.Mine(item) {
				continue
			}
			if c.Expired() {
				c.NotExhaustive("deadline")
				break
			}
			buf = append(buf[:0], b1, b2)
			rec()
		}
	}
	if c.Shard == 0 {
		for _, s := range []string{"", " ", "\t", "\n", "\"", "\\", "=", "<", "a", "\xff"} {
			c.R.Evaluations++
			if f := checkString(s); f != nil {
				report(f, witness{Raw: hexs(s)})
			}
		}
	}
	_ = distinctOutcomes
	// A2: all strings up to maxLen2 over the blank-like alphabet
	maxLen2 := 4
	if c.Thorough() {
		maxLen2 = 5
	}
	c.R.Info["alphabet2"] = fmt.Sprintf("%q", string(sigma2))
	c.R.Info["max_length2"] = maxLen2
	var rec2 func()
	rec2 = func() {
		s := string(buf)
		c.R.Evaluations++
		c.Count("blank_like_strings", 1)
		if f := checkString(s); f != nil {
			report(f, witness{Raw: hexs(s)})
		}
		if len(buf) == maxLen2 {
			return
		}
		for _, b := range sigma2 {
			buf = append(buf, b)
			rec2()
			buf = buf[:len(buf)-1]
		}
	}
	for _, b1 := range sigma2 {
		item++
		if !c.Mine(item) {
			continue
		}
		buf = append(buf[:0], b1)
		rec2()
	}
	// A3: two readers split in an interleaved fashion (call 1 on A, call 1 on B, call 2 on A, ...):
	// every call must return what it returns when each input is split on its own, and arguments
	// handed out earlier must not change when later calls run (no state shared between calls)
	var shorts []string
	var rec3 func(cur []byte)
	rec3 = func(cur []byte) {
		shorts = append(shorts, string(cur))
		if len(cur) == 3 {
			return
		}
		for _, b := range sigma {
			rec3(append(append([]byte{}, cur...), b))
		}
	}
	rec3(nil)
	c.R.Info["interleaved_pairs_of_strings_up_to"] = 3
	for i, s1 := range shorts {
		item++
		if !c.Mine(item) {
			continue
		}
		if c.Expired() {
			c.NotExhaustive("deadline in interleaved pairs")
			break
		}
		alone1, _ := readAll(s1)
		for _, s2 := range shorts[i:] {
			c.R.Evaluations++
			c.Count("interleaved_pairs", 1)
			if f := checkInterleaved(s1, s2, alone1); f != nil {
				report(f, witness{Pair: []string{*hexs(s1), *hexs(s2)}})
			}
		}
	}
	// D2: long lists (two- and three-digit positional indices)
	if c.Mine(5000001) {
		maxPos := 40
		if c.Thorough() {
			maxPos = 150
		}
		longLists(maxPos, func(args []string) {
			c.R.Evaluations++
			c.Count("inject_long_lists", 1)
			if f := checkInject(args); f != nil {
				report(f, witness{Inject: args})
			}
		})
	}
	// C: rendered lists
	n := len(pool)
	listItem := 0
	for la := 1; la <= 3; la++ {
		idx := make([]int, la)
		for {
			listItem++
			if c.Mine(listItem) {
				args := make([]string, la)
				for i, x := range idx {
					args[i] = pool[x]
				}
				forms := make([]int, la)
				for {
					for sp := range seps {
						w := listWit{Args: args, Forms: append([]int{}, forms...), Sep: sp}
						c.R.Evaluations++
						c.Count("rendered_lists", 1)
						if f := checkList(w); f != nil {
							report(f, witness{List: &w})
						}
					}
					k := 0
					for k < la {
						forms[k]++
						if forms[k] < 3 {
							break
						}
						forms[k] = 0
						k++
					}
					if k == la {
						break
					}
				}
				c.R.Evaluations++
				c.Count("inject_lists", 1)
				// D: InjectArgs on the list and on variants with dashes and the separator
				for _, v := range [][]string{args, append([]string{"--" + "n=1"}, args...), append(append([]string{}, args...), "--", "tail", "k=z")} {
					if f := checkInject(v); f != nil {
						report(f, witness{Inject: v})
					}
				}
			}
			k := 0
			for k < la {
				idx[k]++
				if idx[k] < n {
					break
				}
				idx[k] = 0
				k++
			}
			if k == la {
				break
			}
		}
	}
	// E: every heredoc body of <= 4 (quick) / <= 5 (thorough) symbols over {a, newline, E, O, F, space}
	// (bodies that contain the closing marker line, or have surrounding blanks, are not expressible)
	hsyms := []string{"a", "\n", "E", "O", "F", " ", "\xff"}
	hmax := 4
	if c.Thorough() {
		hmax = 5
	}
	var hrec func(cur string, left int)
	hrec = func(cur string, left int) {
		listItem++
		if c.Mine(listItem) && cur != "" && !strings.Contains("\n"+cur+"\n", "\nEOF\n") && !strings.Contains("\n"+cur, "\nEOF") && cur == strings.Trim(cur, " \t") {
			c.R.Evaluations++
			c.Count("heredoc_bodies", 1)
			if f := checkHeredoc(cur); f != nil {
				report(f, witness{Heredoc: hexs(cur)})
			}
		}
		if left == 0 {
			return
		}
		for _, sy := range hsyms {
			hrec(cur+sy, left-1)
		}
	}
	hrec("", hmax)
	c.R.Distinct = c.R.Evaluations
	c.Sample(map[string]interface{}{"raw": "a \\a\n\"a b\" k=<<", "note": "every string over the 9-byte alphabet up to the length bound is split"})
	c.Sample(map[string]interface{}{"rendered": "\"a b\" \\\nk=<<EOF\nline1\nline2\nEOF\na a\n", "expect": []string{"a b", "k=line1\nline2"}})
}

func replay(wj json.RawMessage) (*fw.Violation, error) {
	var lw struct {
		Program string   `json:"program"`
		Spec    LoopSpec `json:"spec"`
		Choices []int    `json:"choices"`
	}
	if err := json.Unmarshal(wj, &lw); err == nil && strings.HasPrefix(lw.Program, "loop/") {
		return explore.ReplayProgram(mkLoop(lw.Spec), lw.Choices)
	}
	var w witness
	if err := json.Unmarshal(wj, &w); err != nil {
		return nil, err
	}
	var f *finding
	switch {
	case w.Raw != nil:
		var b []byte
		fmt.Sscanf(*w.Raw, "%x", &b)
		f = checkString(string(b))
	case w.Heredoc != nil:
		var b []byte
		fmt.Sscanf(*w.Heredoc, "%x", &b)
		f = checkHeredoc(string(b))
	case len(w.Pair) == 2:
		var b1, b2 []byte
		fmt.Sscanf(w.Pair[0], "%x", &b1)
		fmt.Sscanf(w.Pair[1], "%x", &b2)
		a1, _ := readAll(string(b1))
		f = checkInterleaved(string(b1), string(b2), a1)
	case w.List != nil:
		f = checkList(*w.List)
	case w.Inject != nil:
		f = checkInject(w.Inject)
	}
	if f == nil {
		return nil, nil
	}
	return &fw.Violation{Property: "C17", Clause: f.clause, Signature: "C17/" + f.kind, Detail: f.detail}, nil
}

func init() {
	fw.Register(&fw.Check{ID: "C17", Level: "exploration",
		Rule: "ALL byte strings of length <= 7 (quick) / <= 9 (thorough) over the alphabet {space, tab, newline, '\"', backslash, '=', '<', 'a', 0xff}: totality on every one (no panic, terminates, reader drained call by call), SplitArguments agreeing with the first ReadArguments call, and no byte >= 0x80 occurring more often in the arguments than in the input (whatever the context: bare, after a backslash, quoted, heredoc); ALL strings of length <= 4 / <= 5 over the blank-like alphabet {space, tab, 'a', CR, VT, FF, NUL, 0xc2, 0x85, 0xa0, 0xe3, 0x80} (these are word bytes); all pairs of strings of length <= 3 split from two readers in alternation (each call as when split alone; arguments handed out earlier never change); strings without quote/backslash/heredoc additionally against the plain-word reference (per-line blank-separated fields byte for byte, eof flags); every string without quotes and '<' against the command-boundary reference (a newline ends the command unless an odd run of backslashes stands directly in front of it); strings whose backslashes precede a letter, another backslash (escaped backslash = word byte) or a continuation newline against the argument-count and line-boundary reference. Plus every argument list of <= 3 arguments from a 14-entry pool rendered in every applicable form (bare, quoted, heredoc) with 4 separators (incl. backslash-newline), followed by a second command; plus InjectArgs mapping on each list and on lists of 0..40 (thorough 150) positional arguments (alone, interleaved with named ones, with a '--' tail; no key beyond the last index); plus every heredoc body of <= 4 (quick) / <= 5 (thorough) symbols over {a, newline, E, O, F, space, 0xff} with marker EOF (bodies ending in empty lines or in a prefix of the marker included). distinct = inputs",
		Run: run, Replay: replay,
		Assumptions: []string{"length bound as stated; the 'randomly beyond' part is not claimed", "content of words containing a bare backslash is unspecified (only totality and argument count are required)", "an empty heredoc body cannot be rendered by the reference quoting (text must be non-empty)"}})
}
