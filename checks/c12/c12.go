// Package c12 decides C12: scope failure signalling is safe from any number of goroutines.
// Engine: program enumeration x preemption-bounded exhaustive schedule exploration of the
// real contextscope / scope code, with the happens-before race oracle.
package c12

import (
	"encoding/json"
	"errors"
	"fmt"
	"strings"

	"github.com/goatcms/goatcore/app"
	"github.com/goatcms/goatcore/app/scope"
	"github.com/goatcms/goatcore/app/scope/contextscope"
	"github.com/goatcms/goatcore/zzverif/vsched"

	"verif/explore"
	"verif/fw"
)

// Spec of one program.
type Spec struct {
	Kind    string     `json:"kind"`    // plain | isolated | scope | child | childof-done | child-racing
	Threads [][]string `json:"threads"` // ops per thread: err | kill | stop | isdone | errors | err()
	Bound   int        `json:"bound"`
}

type obs struct {
	appended                    []error
	kills                       int
	stops                       int
	readErrs                    [][]error
	finalErrs                   []error
	isDone                      bool
	closeErr                    error
	closed                      bool
	waitErr                     error
	done                        bool
	note                        string
	seen                        []seenObs
	lateAppended                []error
	sibClosing                  bool
	parentAsked                 []string
	parentClosed                bool
	parentCommitted             bool
	closedByThread              bool
	finalErrText, parentErrText string
	parentErrs                  int
	waitErrText, closeErrText   string
}

// seenObs is what a reader saw after it had observed the done signal.
type seenObs struct {
	errs   int
	errNil bool
}

var focus = []string{"app/scope", "checks/c12"}

func build(sp Spec, o *obs) func() {
	return func() {
		*o = obs{}
		var cs app.ContextScope
		var full app.Scope
		var parent, child app.Scope
		var parentCtx app.ContextScope
		var wg vsched.WaitGroup
		inClose := false
		switch sp.Kind {
		case "plain":
			cs = contextscope.New()
		case "isolated":
			cs = contextscope.NewIsolated(contextscope.New())
		case "isolated-parent-ends":
			// the context an isolated scope was derived from ends (kill / stop / error) while goroutines signal
			// on the isolated scope: the end is propagated, and nothing appended to the isolated scope is lost
			parentCtx = contextscope.New()
			cs = contextscope.NewIsolated(parentCtx)
		case "scope":
			full = scope.New(scope.Params{})
			cs = full
		case "scope-rollback-listeners":
			// listeners of the rollback triple and of after-close fail: what they report is recorded while
			// Close is already past its wait - and is part of what Close answers
			full = scope.New(scope.Params{})
			cs = full
			for _, ev := range []struct {
				id   interface{}
				name string
			}{{app.BeforeRollbackEvent, "before-rollback"}, {app.RollbackEvent, "rollback"}, {app.AfterRollbackEvent, "after-rollback"}, {app.AfterCloseEvent, "after-close"}} {
				ev := ev
				full.On(ev.id, func(interface{}) error {
					e := fmt.Errorf("listener-failed-at-%s", ev.name)
					o.lateAppended = append(o.lateAppended, e)
					return e
				})
			}
		case "child":
			parent = scope.New(scope.Params{})
			full = scope.NewChild(parent, scope.ChildParams{})
			cs = full
		case "childof-done", "child-racing":
			parent = scope.New(scope.Params{})
			cs = parent
		case "child-racing-sibling":
			// as child-racing, with a registered sibling that stays open: the parent's Close must wait for it
			// whatever happens to the child that is created while the parent ends
			parent = scope.New(scope.Params{})
			cs = parent
			child = scope.NewChild(parent, scope.ChildParams{Name: "sibling"})
		case "orphan-child":
			// a child created on a scope that has already ended (it is not registered with the parent, so the
			// parent's Close does not wait for it) keeps signalling while / after the parent is closed
			parent = scope.New(scope.Params{})
			switch sp.Threads[0][0] {
			case "stop":
				parent.Stop()
			case "kill":
				parent.Kill()
				o.kills++
			case "err":
				e := fmt.Errorf("parent-ended-with-error")
				o.appended = append(o.appended, e)
				parent.AppendError(e)
			}
			child = scope.NewChild(parent, scope.ChildParams{})
			cs = child
		case "child-closing":
			// a registered child (same context) whose close-time listener fails, closed by one goroutine
			// while another waits on / closes the PARENT: the parent must report the listener's error
			parent = scope.New(scope.Params{})
			cs = parent
			child = scope.NewChild(parent, scope.ChildParams{})
			// (a child's events also reach the parent's listeners: only the parent's own commit counts)
			parent.On(app.CommitEvent, func(d interface{}) error {
				if s, ok := d.(app.Scope); ok && s == parent {
					o.parentCommitted = true
				}
				return nil
			})
		case "scope-closing":
			// the threads are registered tasks of a scope that another goroutine is closing: they
			// signal their failure while Close waits for them
			full = scope.New(scope.Params{})
			cs = full
			full.AddTasks(len(sp.Threads))
			full.On(app.BeforeCloseEvent, func(interface{}) error { inClose = true; return nil })
			wg.Add(1)
			vsched.Spawn(func() {
				defer wg.Done()
				o.closeErr = full.Close()
				o.closedByThread = true
			})
		}
		for ti, ops := range sp.Threads {
			ti, ops := ti, ops
			if sp.Kind == "orphan-child" && ti == 0 {
				continue // (how the parent ended: done above)
			}
			wg.Add(1)
			vsched.Spawn(func() {
				defer wg.Done()
				if sp.Kind == "scope-closing" {
					for !inClose {
						vsched.Yield()
					}
					defer full.DoneTask()
				}
				for oi, op := range ops {
					switch op {
					case "err":
						e := fmt.Errorf("e-%d-%d", ti, oi)
						o.appended = append(o.appended, e)
						cs.AppendError(e)
					case "err2":
						e1, e2 := fmt.Errorf("e-%d-%da", ti, oi), fmt.Errorf("e-%d-%db", ti, oi)
						o.appended = append(o.appended, e1, e2)
						cs.AppendError(e1, nil, e2)
					case "errbatch":
						// two batches reported from ONE caller-owned slice with spare capacity that is
						// overwritten after each call (the scope must keep its own copy)
						batch := make([]error, 0, 4)
						e1, e2 := fmt.Errorf("b-%d-%da", ti, oi), fmt.Errorf("b-%d-%db", ti, oi)
						o.appended = append(o.appended, e1, e2)
						batch = append(batch, e1, e2)
						cs.AppendError(batch...)
						scr := errors.New("scribbled-by-the-caller")
						batch[0], batch[1] = scr, scr
						e3 := fmt.Errorf("b-%d-%dc", ti, oi)
						o.appended = append(o.appended, e3)
						batch = append(batch[:0], e3)
						cs.AppendError(batch...)
						batch[0] = scr
						batch = append(batch, scr, scr, scr)
					case "kill":
						o.kills++
						cs.Kill()
					case "stop":
						o.stops++
						cs.Stop()
					case "isdone":
						cs.IsDone()
					case "errors":
						o.readErrs = append(o.readErrs, append([]error{}, cs.Errors()...))
					case "err()":
						cs.Err()
					case "perr":
						// an error recorded through ANOTHER wrapper of the same context (the parent scope)
						e := fmt.Errorf("p-%d-%d", ti, oi)
						o.appended = append(o.appended, e)
						parent.AppendError(e)
					case "seen":
						// a reader that has observed the done signal looks at the error accessors
						if cs.IsDone() {
							n := len(cs.Errors())
							o.seen = append(o.seen, seenObs{n, cs.Err() == nil})
						}
					case "cclose/before-close", "cclose/commit", "cclose/after-commit", "cclose/after-close":
						evs := map[string]interface{}{"before-close": app.BeforeCloseEvent, "commit": app.CommitEvent, "after-commit": app.AfterCommitEvent, "after-close": app.AfterCloseEvent}
						e := fmt.Errorf("listener-failed-%d-%d", ti, oi)
						child.On(evs[strings.TrimPrefix(op, "cclose/")], func(interface{}) error {
							o.appended = append(o.appended, e)
							return e
						})
						child.Close()
					case "pwait":
						if e := parent.Wait(); e != nil {
							o.waitErrText = e.Error()
						}
						o.parentAsked = append(o.parentAsked, "Wait()="+o.waitErrText)
					case "pclose":
						if e := parent.Close(); e != nil {
							o.closeErrText = e.Error()
						}
						o.parentAsked = append(o.parentAsked, "Close()="+o.closeErrText)
						o.parentClosed = true
					case "ctxkill":
						parentCtx.Kill()
					case "ctxstop":
						parentCtx.Stop()
					case "ctxerr":
						parentCtx.AppendError(fmt.Errorf("parent-context-error"))
					case "newchild-close":
						// the termexec pattern: a command scope created on a scope that may just have ended
						ch := scope.NewChild(parent, scope.ChildParams{Name: "cmd"})
						ch.Close()
					}
				}
			})
		}
		wg.Wait()
		o.finalErrs = append([]error{}, cs.Errors()...)
		o.isDone = cs.IsDone()
		if e := cs.Err(); e != nil {
			o.finalErrText = e.Error()
		}
		if parent != nil && sp.Kind == "child" {
			if e := parent.Err(); e != nil {
				o.parentErrText = e.Error()
			}
			o.parentErrs = len(parent.Errors())
		}
		if sp.Kind == "childof-done" {
			// sequential: the parent has ended; creating and closing a child must be safe
			ch := scope.NewChild(parent, scope.ChildParams{})
			o.closeErr = ch.Close()
		}
		if sp.Kind == "child-racing-sibling" {
			// (only now: creating a child of a CLOSED scope is a usage error, of a done one it is not)
			var cwg vsched.WaitGroup
			cwg.Add(1)
			vsched.Spawn(func() {
				defer cwg.Done()
				parent.Close()
				if !o.sibClosing {
					o.note = "the parent's Close returned while a registered child (created before the parent ended) was still open"
				}
			})
			vsched.Yield()
			o.sibClosing = true
			child.Close()
			cwg.Wait()
			o.done = true
			return
		}
		if sp.Kind == "orphan-child" {
			o.finalErrs = append([]error{}, cs.Errors()...)
			o.isDone = cs.IsDone()
			child.Close()
			if !o.parentClosed {
				parent.Close()
			}
			o.done = true
			return
		}
		if sp.Kind == "child-closing" {
			if !o.parentClosed {
				parent.Close()
			}
			o.done = true
			return
		}
		if sp.Kind == "scope-closing" {
			o.finalErrs = append([]error{}, cs.Errors()...)
			if want := len(o.appended) + o.kills; (o.closeErr != nil) != (want > 0) {
				o.note = fmt.Sprintf("Close returned %v although %d errors were signalled while it waited", o.closeErr, want)
			}
			o.done = true
			return
		}
		if full != nil {
			o.waitErr = full.Wait()
			o.closeErr = full.Close()
			o.closed = true
			if o.waitErr != nil {
				o.waitErrText = o.waitErr.Error()
			}
			if o.closeErr != nil {
				o.closeErrText = o.closeErr.Error()
			}
		}
		if parent != nil {
			parent.Close()
		}
		o.done = true
	}
}

func judge(sp Spec, o *obs) func(x *explore.Exec) *explore.Verdict {
	return func(x *explore.Exec) *explore.Verdict {
		if !o.done {
			return &explore.Verdict{Kind: "not-finished", Clause: "no call blocks forever", Detail: "the main harness thread did not finish"}
		}
		if o.note != "" {
			return &explore.Verdict{Kind: "close-result-while-tasks-signal", Clause: "every appended error is retained and reported by ... waiting on or closing it", Detail: o.note}
		}
		want := len(o.appended) + o.kills
		if sp.Kind == "isolated-parent-ends" {
			for _, e := range o.appended {
				found := false
				for _, f := range o.finalErrs {
					if f == e {
						found = true
					}
				}
				if !found {
					return &explore.Verdict{Kind: "error-lost-or-duplicated", Clause: "every appended error is retained and reported by the scope's error accessors", Detail: fmt.Sprintf("error %v appended to the isolated scope while its parent context ended is missing from Errors() = %v", e, o.finalErrs)}
				}
			}
			if !o.isDone {
				return &explore.Verdict{Kind: "done-signal-wrong", Clause: "the done signal fires when the scope is killed, stopped or receives an error", Detail: "the isolated scope is not done although its parent context ended"}
			}
			return nil
		}
		if sp.Kind == "child-racing-sibling" {
			return nil // (o.note, panics and deadlocks are judged above / by the explorer)
		}
		if sp.Kind == "orphan-child" {
			for _, e := range o.appended {
				found := false
				for _, f := range o.finalErrs {
					if f == e {
						found = true
					}
				}
				if !found {
					return &explore.Verdict{Kind: "error-lost-or-duplicated", Clause: "creating and closing a child of a scope that is already done is equally safe; every appended error is retained", Detail: fmt.Sprintf("error %v appended through a child of an already ended scope is missing from Errors() = %v", e, o.finalErrs)}
				}
			}
			if !o.isDone {
				return &explore.Verdict{Kind: "done-signal-wrong", Clause: "the done signal fires when the scope is killed, stopped or receives an error", Detail: "the child of an ended scope is not done"}
			}
			return nil
		}
		if sp.Kind == "child-closing" {
			// (the commit listeners only fire when nothing failed before; whatever DID fail must be reported)
			for _, e := range o.appended {
				for _, asked := range o.parentAsked {
					if !strings.Contains(asked, e.Error()) {
						return &explore.Verdict{Kind: "child-close-error-not-reported-by-parent", Clause: "every appended error is retained and reported by ... waiting on or closing it",
							Detail: fmt.Sprintf("the registered child's close-time listener failed with %q (shared context), but the parent's %s does not mention it", e.Error(), short(asked))}
					}
				}
				if o.parentClosed && o.parentCommitted {
					return &explore.Verdict{Kind: "child-close-error-not-reported-by-parent", Clause: "every appended error is retained and reported by ... waiting on or closing it",
						Detail: fmt.Sprintf("the registered child's close-time listener failed with %q, but the parent's Close committed", e.Error())}
				}
			}
			return nil
		}
		if sp.Kind == "scope-closing" {
			// (Close itself may add its own wrapped error: at least the signalled ones are held)
			if len(o.finalErrs) < want {
				return &explore.Verdict{Kind: "error-lost-or-duplicated", Clause: "every appended error is retained", Detail: fmt.Sprintf("%d errors signalled while Close waited, Errors() holds %d", want, len(o.finalErrs))}
			}
			return nil
		}
		if len(o.finalErrs) != want {
			return &explore.Verdict{Kind: "error-lost-or-duplicated", Clause: "every appended error is retained and reported by the scope's error accessors",
				Detail: fmt.Sprintf("%d errors appended + %d kills, but Errors() holds %d: %v", len(o.appended), o.kills, len(o.finalErrs), o.finalErrs)}
		}
		for _, e := range o.appended {
			found := false
			for _, f := range o.finalErrs {
				if f == e {
					found = true
				}
			}
			if !found {
				return &explore.Verdict{Kind: "error-lost-or-duplicated", Clause: "every appended error is retained", Detail: fmt.Sprintf("appended error %v is missing from Errors() = %v", e, o.finalErrs)}
			}
		}
		// the cumulative accessors name every appended error - whichever wrapper of the context
		// recorded it and whatever was asked before
		texts := map[string]string{"Err()": o.finalErrText}
		if o.closed {
			texts["Wait()"], texts["Close()"] = o.waitErrText, o.closeErrText
		}
		if sp.Kind == "child" {
			texts["parent.Err()"] = o.parentErrText
			if o.parentErrs != want {
				return &explore.Verdict{Kind: "error-lost-or-duplicated", Clause: "every appended error is retained and reported by the scope's error accessors",
					Detail: fmt.Sprintf("the parent (same context) holds %d errors, %d were recorded", o.parentErrs, want)}
			}
		}
		if o.closed {
			for _, e := range o.lateAppended {
				if !strings.Contains(o.closeErrText, e.Error()) {
					return &explore.Verdict{Kind: "error-not-reported-by-accessor", Clause: "every appended error is retained and reported by the scope's error accessors and by waiting on or closing it",
						Detail: fmt.Sprintf("Close() = %q does not mention %q, which a listener reported while the scope was closing", short(o.closeErrText), e.Error())}
				}
			}
		}
		for _, e := range o.appended {
			for acc, txt := range texts {
				if !strings.Contains(txt, e.Error()) {
					return &explore.Verdict{Kind: "error-not-reported-by-accessor", Clause: "every appended error is retained and reported by the scope's error accessors and by waiting on or closing it",
						Detail: fmt.Sprintf("%s = %q does not mention the appended error %q (Errors() holds %d)", acc, short(txt), e.Error(), len(o.finalErrs))}
				}
			}
		}
		for _, rd := range o.readErrs {
			for _, e := range rd {
				if e == nil {
					return &explore.Verdict{Kind: "nil-error-read", Clause: "readers see complete values", Detail: "a concurrent Errors() returned a nil entry"}
				}
			}
		}
		if o.stops == 0 && !hasOp(sp, "stop") {
			// the scope can only have ended through an error: whoever saw the done signal must be
			// shown that error by the accessors
			for _, so := range o.seen {
				if so.errs == 0 || so.errNil {
					return &explore.Verdict{Kind: "done-without-error", Clause: "every appended error is retained and reported by the scope's error accessors",
						Detail: fmt.Sprintf("a reader observed the done signal of a scope that was only ever failed (never stopped) and then read len(Errors())=%d, Err()==nil: %v", so.errs, so.errNil)}
				}
			}
		}
		mustBeDone := want > 0 || o.stops > 0
		if o.isDone != mustBeDone {
			return &explore.Verdict{Kind: "done-signal-wrong", Clause: "the done signal fires (exactly once) when the scope is killed, stopped or receives an error",
				Detail: fmt.Sprintf("IsDone()=%v after %d errors, %d kills, %d stops", o.isDone, len(o.appended), o.kills, o.stops)}
		}
		if o.closed {
			if (o.waitErr != nil) != (want > 0) || (o.closeErr != nil) != (want > 0) {
				return &explore.Verdict{Kind: "wait-close-report", Clause: "errors are reported by waiting on or closing the scope",
					Detail: fmt.Sprintf("%d errors held; Wait() returned %v, Close() returned %v", want, o.waitErr, o.closeErr)}
			}
		}
		return nil
	}
}

func short(s string) string {
	if len(s) > 300 {
		return s[:300] + "..."
	}
	return s
}

func hasOp(sp Spec, op string) bool {
	for _, t := range sp.Threads {
		for _, x := range t {
			if x == op {
				return true
			}
		}
	}
	return false
}

func programs(thorough bool) []Spec {
	var ps []Spec
	ops := []string{"err", "kill", "stop", "isdone", "errors"}
	b2, b3 := 3, 2
	if thorough {
		b2, b3 = 4, 3
	}
	for _, k := range []string{"plain", "isolated", "scope", "child"} {
		for i, a := range ops {
			for _, b := range ops[i:] {
				if (a == "isdone" || a == "errors") && (b == "isdone" || b == "errors") {
					continue
				}
				ps = append(ps, Spec{k, [][]string{{a}, {b}}, b2})
			}
		}
		// two operations per thread (the normal pipeline case: tasks failing at the same moment)
		ps = append(ps,
			Spec{k, [][]string{{"err", "err"}, {"err", "kill"}}, b2},
			Spec{k, [][]string{{"err2", "stop"}, {"stop", "err"}}, b2},
			Spec{k, [][]string{{"kill", "errors"}, {"err", "err()"}}, b2},
			Spec{k, [][]string{{"stop", "stop"}, {"stop", "isdone"}}, b2},
		)
		// readers that act on the done signal
		ps = append(ps,
			Spec{k, [][]string{{"err"}, {"seen", "seen"}}, b2},
			Spec{k, [][]string{{"kill"}, {"seen", "seen"}}, b2},
			Spec{k, [][]string{{"err2"}, {"seen"}, {"seen"}}, b3},
			Spec{k, [][]string{{"err"}, {"kill"}, {"seen"}}, b3},
		)
		// batches from a re-used caller slice
		ps = append(ps,
			Spec{k, [][]string{{"errbatch", "errors"}}, 0},
			Spec{k, [][]string{{"errbatch"}, {"err"}}, b2},
			Spec{k, [][]string{{"errbatch"}, {"errbatch"}}, b2 - 1},
		)
		// cumulative accessors asked between appends
		ps = append(ps,
			Spec{k, [][]string{{"err", "err()", "err", "err()"}}, 0},
			Spec{k, [][]string{{"err", "err()"}, {"err", "err()"}}, b2},
		)
		// three threads
		ps = append(ps,
			Spec{k, [][]string{{"err"}, {"err"}, {"err"}}, b3},
			Spec{k, [][]string{{"err"}, {"kill"}, {"stop"}}, b3},
			Spec{k, [][]string{{"stop"}, {"stop"}, {"stop"}}, b3},
			Spec{k, [][]string{{"kill"}, {"kill"}, {"errors"}}, b3},
		)
	}
	// errors recorded through different wrappers of one context, cumulative accessors in between
	ps = append(ps,
		Spec{"child", [][]string{{"err", "err()", "perr", "err()"}}, 0},
		Spec{"child", [][]string{{"perr", "err()", "err", "err()", "kill"}}, 0},
		Spec{"child", [][]string{{"err", "err()"}, {"perr", "err()"}}, b2},
		Spec{"child", [][]string{{"err", "err()", "err()"}, {"perr"}, {"perr"}}, b3},
	)
	// registered tasks signal their failure while another goroutine is inside Close and waits for them
	for _, op := range []string{"err", "kill", "stop"} {
		ps = append(ps, Spec{"scope-closing", [][]string{{op}}, b2}, Spec{"scope-closing", [][]string{{op}, {"err"}}, b3})
	}
	// a failing close-time listener of a registered child vs. the parent's Wait / Close
	for _, ev := range []string{"before-close", "commit", "after-commit", "after-close"} {
		ps = append(ps, Spec{"child-closing", [][]string{{"cclose/" + ev}, {"pwait"}}, b2}, Spec{"child-closing", [][]string{{"cclose/" + ev}, {"pclose"}}, b2},
			Spec{"child-closing", [][]string{{"cclose/" + ev}, {"pwait"}, {"pclose"}}, b3})
	}
	// failing rollback / after-close listeners on a scope that has failed
	ps = append(ps,
		Spec{"scope-rollback-listeners", [][]string{{"err"}}, 0},
		Spec{"scope-rollback-listeners", [][]string{{"kill"}}, 0},
		Spec{"scope-rollback-listeners", [][]string{{"err"}, {"err"}}, b2})
	// the parent context of an isolated scope ends while the isolated scope receives errors
	for _, end := range []string{"ctxkill", "ctxstop", "ctxerr"} {
		ps = append(ps, Spec{"isolated-parent-ends", [][]string{{end}, {"err"}}, b2},
			Spec{"isolated-parent-ends", [][]string{{end}, {"err2", "errors"}}, b2},
			Spec{"isolated-parent-ends", [][]string{{end}, {"err"}, {"err"}}, b3},
			Spec{"isolated-parent-ends", [][]string{{end}, {"kill"}, {"err"}}, b3})
	}
	// a child created while the parent ends, next to a registered sibling that is closed later
	for _, end := range []string{"stop", "kill", "err"} {
		ps = append(ps, Spec{"child-racing-sibling", [][]string{{end}, {"newchild-close"}}, b2},
			Spec{"child-racing-sibling", [][]string{{end}, {"newchild-close"}, {"newchild-close"}}, b3})
	}
	// a child of an ended scope signals while / after the parent is closed
	for _, end := range []string{"stop", "kill", "err"} {
		for _, op := range []string{"err", "kill", "stop"} {
			ps = append(ps, Spec{"orphan-child", [][]string{{end}, {"pclose"}, {op, "errors"}}, b2})
		}
		ps = append(ps, Spec{"orphan-child", [][]string{{end}, {"pclose"}, {"err"}, {"kill"}}, b3})
	}
	// children of a scope that is done / ends concurrently
	for _, end := range []string{"stop", "kill", "err"} {
		ps = append(ps, Spec{"childof-done", [][]string{{end}}, 0})
		ps = append(ps, Spec{"child-racing", [][]string{{end}, {"newchild-close"}}, b2})
		ps = append(ps, Spec{"child-racing", [][]string{{end}, {"newchild-close"}, {"newchild-close"}}, b3})
	}
	return ps
}

func mkProgram(sp Spec) *explore.Program {
	o := &obs{}
	name := sp.Kind + ":" + threadsName(sp.Threads)
	return &explore.Program{Prop: "C12", Name: name, Spec: sp,
		Opt:  explore.Options{Bound: sp.Bound, Focus: focus, Race: true, MaxSteps: 5000},
		Body: build(sp, o), Judge: judge(sp, o),
		Outcome: func() string { return fmt.Sprintf("errs=%d done=%v", len(o.finalErrs), o.isDone) },
		RaceOK: func(r vsched.RaceInfo) bool {
			return !strings.Contains(r.First, "app/scope") && !strings.Contains(r.Second, "app/scope")
		},
	}
}

func threadsName(t [][]string) string {
	var l []string
	for _, x := range t {
		l = append(l, strings.Join(x, "+"))
	}
	return strings.Join(l, "|")
}

func run(c *fw.Ctx) {
	ps := programs(c.Thorough())
	c.R.Info["programs_total"] = len(ps)
	c.R.Info["focus"] = focus
	for i, sp := range ps {
		if c.Expired() {
			c.NotExhaustive("deadline")
			break
		}
		p := mkProgram(sp)
		if !explore.RunProgram(c, p) {
			if c.R.InfraError != "" {
				return
			}
		}
		if i%17 == 3 && c.Shard == 0 {
			c.Sample(map[string]interface{}{"program": sp})
		}
	}
}

func replay(wj json.RawMessage) (*fw.Violation, error) {
	var w struct {
		Spec    Spec  `json:"spec"`
		Choices []int `json:"choices"`
	}
	if err := json.Unmarshal(wj, &w); err != nil {
		return nil, err
	}
	return explore.ReplayProgram(mkProgram(w.Spec), w.Choices)
}

var _ = errors.New

func init() {
	fw.Register(&fw.Check{ID: "C12", Level: "model_checking",
		Rule: "programs = scope kind {plain context scope, isolated, full scope, child sharing the parent's context} x thread programs (all pairs of single operations from {AppendError, Kill, Stop, IsDone, Errors}; curated 2x2; 3x1; batches reported from one re-used, overwritten caller slice; readers that look at Errors/Err after having observed the done signal) plus registered tasks that signal while another goroutine is inside Close, plus child creation/closing after and racing with the parent's end; every schedule of the real code with <= bound preemptions (2 threads: 3 quick / 4 thorough; 3 threads: 2 / 3) is executed; oracle: no panic (a double close of the done channel or a negative wait-group counter panics), error count and identity, done signal, a reader that saw the done signal of a never-stopped scope sees its error, Wait/Close report, no deadlock, and the happens-before race oracle on the scope packages' multi-word fields. states = distinct schedule traces",
		Run:  run, Replay: replay,
		Assumptions: []string{"2-3 concurrent callers; preemption bounds as reported", "word-sized fields (e.g. the closed flag) are outside the race oracle"}})
}
