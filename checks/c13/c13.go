// Package c13 decides C13: child data scopes overlay their parent, locked sections are atomic.
// Engine: exhaustive enumeration of bounded key/value histories on scope chains against a
// list-of-maps model, and preemption-bounded schedule exploration of concurrent locked
// sections / plain accesses / get-or-create services, judged by a linearizability checker
// (porcupine) with each locked section as one atomic step.
package c13

import (
	"encoding/json"
	"fmt"
	"sort"
	"strings"

	"github.com/anishathalye/porcupine"
	"github.com/goatcms/goatcore/app"
	"github.com/goatcms/goatcore/app/modules/commonm/commservices/envs"
	"github.com/goatcms/goatcore/app/modules/commonm/commservices/waits"
	"github.com/goatcms/goatcore/app/modules/pipelinem/pipservices/tasks"
	"github.com/goatcms/goatcore/app/scope"
	"github.com/goatcms/goatcore/app/scope/datascope"
	"github.com/goatcms/goatcore/zzverif/vsched"

	"verif/explore"
	"verif/fsx"
	"verif/fw"
)

// ---------- A: sequential overlay semantics ----------

type sop struct {
	Level int    `json:"level"`
	Kind  string `json:"kind"` // set | lockset | get
	Key   string `json:"key"`
	Val   int    `json:"val"` // 0 = nil
}

func (o sop) String() string {
	return fmt.Sprintf("L%d.%s(%s,%d)", o.Level, o.Kind, o.Key, o.Val)
}

func seqAlphabet(levels int) []sop {
	var a []sop
	for l := 0; l < levels; l++ {
		for _, k := range []string{"k1", "k2"} {
			for _, v := range []int{1, 2, 0} {
				a = append(a, sop{l, "set", k, v}, sop{l, "lockset", k, v})
				if v != 0 {
					// a locked section opened on the locker itself (a locker is a data scope too)
					a = append(a, sop{l, "nestlockset", k, v})
				}
			}
			// a locked section that only READS the key and commits: nothing was set
			a = append(a, sop{l, "lockread", k, 0})
		}
	}
	return a
}

func val(v int) interface{} {
	if v == 0 {
		return nil
	}
	return v
}

func runSeq(levels int, hist []sop) (detail string) { return runSeqMode("", levels, hist) }

// runSeqMode: mode "" builds the chain from data scopes; "scope", "scope-stopped", "scope-killed" build it
// from application scopes (scope.NewChild), the parent being live / stopped / killed when its child is
// created (a child of an ended scope is not registered with it - its data is an overlay all the same).
func runSeqMode(mode string, levels int, hist []sop) (detail string) {
	res := fsx.RunSeq(func() {
		var chain []app.DataScope
		if mode == "" {
			chain = []app.DataScope{datascope.New(map[interface{}]interface{}{})}
			for i := 1; i < levels; i++ {
				chain = append(chain, datascope.NewChild(chain[i-1], map[interface{}]interface{}{}))
			}
		} else {
			cur := scope.New(scope.Params{})
			chain = []app.DataScope{cur}
			for i := 1; i < levels; i++ {
				switch mode {
				case "scope-stopped":
					cur.Stop()
				case "scope-killed":
					cur.Kill()
				}
				cur = scope.NewChild(cur, scope.ChildParams{})
				chain = append(chain, cur)
			}
		}
		model := make([]map[string]interface{}, levels)
		for i := range model {
			model[i] = map[string]interface{}{}
		}
		for _, o := range hist {
			switch o.Kind {
			case "set":
				chain[o.Level].SetValue(o.Key, val(o.Val))
			case "lockset":
				lk := chain[o.Level].LockData()
				// inside the section the holder sees the scope's view and writes through
				lk.Value(o.Key)
				lk.SetValue(o.Key, val(o.Val))
				lk.Commit()
			case "nestlockset":
				lk := chain[o.Level].LockData()
				in := lk.LockData()
				in.Value(o.Key)
				in.SetValue(o.Key, val(o.Val))
				in.Commit()
				lk.Commit()
			case "lockread":
				lk := chain[o.Level].LockData()
				lk.Value(o.Key)
				lk.Keys()
				lk.Commit()
				continue
			}
			model[o.Level][o.Key] = val(o.Val)
		}
		for l := 0; l < levels; l++ {
			for _, k := range []string{"k1", "k2", "never"} {
				var want interface{}
				for u := l; u >= 0; u-- {
					if v, ok := model[u][k]; ok {
						want = v
						break
					}
				}
				if got := chain[l].Value(k); got != want {
					detail = fmt.Sprintf("after %v: level %d Value(%s) = %v, overlay model says %v", hist, l, k, got, want)
					return
				}
				// the same through a locked section
				lk := chain[l].LockData()
				got := lk.Value(k)
				lk.Commit()
				if got != want {
					detail = fmt.Sprintf("after %v: level %d locked Value(%s) = %v, overlay model says %v", hist, l, k, got, want)
					return
				}
				// ... and through a section opened on that section's locker
				lk = chain[l].LockData()
				in := lk.LockData()
				got = in.Value(k)
				in.Commit()
				lk.Commit()
				if got != want {
					detail = fmt.Sprintf("after %v: level %d Value(%s) in a locked section nested in a locked section = %v, overlay model says %v", hist, l, k, got, want)
					return
				}
			}
		}
	})
	if detail == "" && (res.Deadlock || res.Horizon) {
		detail = fmt.Sprintf("after %v: blocked forever: %v", hist, res.Blocked)
	}
	if detail == "" && len(res.Panics) > 0 {
		detail = fmt.Sprintf("after %v: panic %s", hist, res.Panics[0].Value)
	}
	return
}

// ---------- B: concurrent programs ----------

// Spec of a concurrent program.
type Spec struct {
	Target  string   `json:"target"`  // root | child | scope
	Threads []string `json:"threads"` // inc | set | get | keys | inc-other-key | envs | waits | tasks
	Bound   int      `json:"bound"`
}

type event struct {
	client   int
	kind     string
	in       int
	out      int
	call, rt int64
}

type obs struct {
	events    []event
	clock     int64
	final     interface{}
	instances map[string]map[string]bool
	done      bool
}

var focus = []string{"app/scope/datascope", "checks/c13", "commservices/envs", "commservices/waits", "pipservices/tasks"}

func toInt(v interface{}) int {
	if i, ok := v.(int); ok {
		return i
	}
	return 0
}

func build(sp Spec, o *obs) func() {
	return func() {
		*o = obs{instances: map[string]map[string]bool{}}
		var ds, leaf app.DataScope
		var full app.Scope
		switch sp.Target {
		case "root":
			ds = datascope.New(map[interface{}]interface{}{})
		case "child":
			ds = datascope.NewChild(datascope.New(map[interface{}]interface{}{"c": 0}), map[interface{}]interface{}{})
		case "scope":
			full = scope.New(scope.Params{})
			ds = full
		case "middle":
			// a chain root -> middle -> leaf: sections are opened on the MIDDLE scope, plain reads also come
			// through the leaf (which has no value of its own and resolves through the middle scope)
			ds = datascope.NewChild(datascope.New(map[interface{}]interface{}{"c": 0}), map[interface{}]interface{}{})
			leaf = datascope.NewChild(ds, map[interface{}]interface{}{})
		case "middle-scope":
			full = scope.NewChild(scope.New(scope.Params{}), scope.ChildParams{})
			ds = full
			leaf = scope.NewChild(full, scope.ChildParams{})
		}
		tick := func() int64 { o.clock++; return o.clock }
		var wg vsched.WaitGroup
		for ti, kind := range sp.Threads {
			ti, kind := ti, kind
			wg.Add(1)
			vsched.Spawn(func() {
				defer wg.Done()
				ev := event{client: ti, kind: kind}
				ev.call = tick()
				switch kind {
				case "inc":
					lk := ds.LockData()
					v := toInt(lk.Value("c"))
					vsched.Point("inside-locked-section")
					lk.SetValue("c", v+1)
					lk.Commit()
					ev.out = v
				case "inc-other-key":
					lk := ds.LockData()
					v := toInt(lk.Value("d"))
					vsched.Point("inside-locked-section")
					lk.SetValue("d", v+1)
					lk.Commit()
					ev.kind, ev.out = "noop", 0
				case "set":
					ev.in = 100
					ds.SetValue("c", 100)
				case "get":
					ev.out = toInt(ds.Value("c"))
				case "keys":
					ds.Keys()
					ev.kind = "noop"
				case "inc-dirty":
					// a section that writes an intermediate value before the final one
					lk := ds.LockData()
					v := toInt(lk.Value("c"))
					lk.SetValue("c", -1000)
					vsched.Point("inside-locked-section")
					lk.SetValue("c", v+1)
					lk.Commit()
					ev.kind = "inc"
					ev.out = v
				case "get-leaf":
					ev.out = toInt(leaf.Value("c"))
					ev.kind = "get"
				case "lock-nested-read":
					lk := ds.LockData()
					v := toInt(lk.Value("c"))
					lk.Commit()
					ev.kind, ev.out = "get", v
				case "envs", "waits", "tasks":
					var inst interface{}
					var err error
					switch kind {
					case "envs":
						inst, err = (&envs.Unit{}).Envs(full)
					case "waits":
						inst, err = waits.NewWaitManager().ForScope(full)
					case "tasks":
						inst, err = tasks.NewUnit(tasks.UnitDeps{}).FromScope(full)
					}
					if o.instances[kind] == nil {
						o.instances[kind] = map[string]bool{}
					}
					o.instances[kind][fmt.Sprintf("%p/%v", inst, err)] = true
					ev.kind = "noop"
				}
				ev.rt = tick()
				o.events = append(o.events, ev)
			})
		}
		wg.Wait()
		o.final = ds.Value("c")
		o.done = true
	}
}

// register model for porcupine: state = value of key c
var regModel = porcupine.Model{
	Init: func() interface{} { return 0 },
	Step: func(state, input, output interface{}) (bool, interface{}) {
		st := state.(int)
		ev := input.(event)
		out := output.(int)
		switch ev.kind {
		case "inc":
			return out == st, st + 1
		case "set":
			return true, ev.in
		case "get":
			return out == st, st
		case "final":
			return out == st, st
		}
		return true, st
	},
	Equal: func(a, b interface{}) bool { return a.(int) == b.(int) },
}

func judge(sp Spec, o *obs) func(x *explore.Exec) *explore.Verdict {
	return func(x *explore.Exec) *explore.Verdict {
		if !o.done {
			return &explore.Verdict{Kind: "not-finished", Clause: "no call blocks forever", Detail: "main harness thread did not finish"}
		}
		for k, set := range o.instances {
			if len(set) != 1 {
				var l []string
				for s := range set {
					l = append(l, s)
				}
				sort.Strings(l)
				return &explore.Verdict{Kind: "get-or-create-not-unique/" + k, Clause: "read-modify-write sequences done under the lock are never lost (get-or-create services return one instance)", Detail: fmt.Sprintf("concurrent callers of the %s service got %d different results: %v", k, len(set), l)}
			}
		}
		var ops []porcupine.Operation
		for _, e := range o.events {
			if e.kind == "noop" {
				continue
			}
			ops = append(ops, porcupine.Operation{ClientId: e.client, Input: e, Call: e.call, Output: e.out, Return: e.rt})
		}
		ops = append(ops, porcupine.Operation{ClientId: 99, Input: event{kind: "final"}, Call: o.clock + 1, Output: toInt(o.final), Return: o.clock + 2})
		if !porcupine.CheckOperations(regModel, ops) {
			var l []string
			for _, e := range o.events {
				l = append(l, fmt.Sprintf("T%d %s in=%d out=%d [%d,%d]", e.client, e.kind, e.in, e.out, e.call, e.rt))
			}
			kind := "locked-section-not-atomic"
			incs := 0
			for _, e := range o.events {
				if e.kind == "inc" {
					incs++
				}
			}
			if !contains(sp.Threads, "set") && toInt(o.final) < incs {
				kind = "lost-update"
			}
			return &explore.Verdict{Kind: kind, Clause: "between taking a scope's data lock and committing it the holder has exclusive access: read-modify-write sequences under the lock are never lost", Detail: fmt.Sprintf("history is not linearizable with each locked section as one atomic step: %s; final value %v", strings.Join(l, "; "), o.final)}
		}
		return nil
	}
}

func contains(l []string, s string) bool {
	for _, x := range l {
		if x == s {
			return true
		}
	}
	return false
}

func programs(thorough bool) []Spec {
	b2, b3 := 3, 2
	if thorough {
		b2, b3 = 5, 3
	}
	var ps []Spec
	for _, tg := range []string{"root", "child", "scope"} {
		ps = append(ps,
			Spec{tg, []string{"inc", "inc"}, b2},
			Spec{tg, []string{"inc", "set"}, b2},
			Spec{tg, []string{"inc", "get"}, b2},
			Spec{tg, []string{"inc", "keys"}, b2},
			Spec{tg, []string{"inc", "inc-other-key"}, b2},
			Spec{tg, []string{"inc", "lock-nested-read"}, b2},
			Spec{tg, []string{"inc", "inc", "inc"}, b3},
			Spec{tg, []string{"inc", "inc", "get"}, b3},
			Spec{tg, []string{"inc", "set", "get"}, b3},
		)
	}
	for _, tg := range []string{"middle", "middle-scope"} {
		ps = append(ps,
			Spec{tg, []string{"inc", "get-leaf"}, b2},
			Spec{tg, []string{"inc-dirty", "get-leaf"}, b2},
			Spec{tg, []string{"inc-dirty", "get"}, b2},
			Spec{tg, []string{"inc", "inc-dirty", "get-leaf"}, b3},
		)
	}
	for _, svc := range []string{"envs", "waits", "tasks"} {
		ps = append(ps, Spec{"scope", []string{svc, svc}, b2}, Spec{"scope", []string{svc, svc, svc}, b3})
	}
	return ps
}

func mkProgram(sp Spec) *explore.Program {
	o := &obs{}
	return &explore.Program{Prop: "C13", Name: sp.Target + ":" + strings.Join(sp.Threads, "|"), Spec: sp,
		Opt:  explore.Options{Bound: sp.Bound, Focus: focus, Race: true, MaxSteps: 5000},
		Body: build(sp, o), Judge: judge(sp, o),
		Outcome: func() string { return fmt.Sprint(o.final) },
		RaceOK:  func(r vsched.RaceInfo) bool { return !strings.Contains(r.First, "datascope") && !strings.Contains(r.Second, "datascope") },
	}
}

type seqWit struct {
	Levels int    `json:"levels"`
	Hist   []sop  `json:"history"`
	Mode   string `json:"chain_of,omitempty"`
}

func run(c *fw.Ctx) {
	// A
	depth := 3
	if c.Thorough() {
		depth = 4
	}
	item := 0
	for levels := 1; levels <= 3; levels++ {
		alpha := seqAlphabet(levels)
		var rec func(cur []sop)
		rec = func(cur []sop) {
			item++
			if c.Mine(item) && len(cur) > 0 {
				c.R.Evaluations++
				c.Count("sequential_histories", 1)
				if d := runSeq(levels, cur); d != "" {
					sg := "C13/overlay-mismatch"
					if strings.Contains(d, "panic") {
						sg = "C13/sequential-panic"
					} else if strings.Contains(d, "blocked") {
						sg = "C13/sequential-deadlock"
					}
					if !c.Violated(sg) {
						c.Violate(&fw.Violation{Property: "C13", Clause: "a child returns its own value when it has one and otherwise the parent's current value; child writes never change the parent", Signature: sg, Detail: d, Witness: fw.JSON(map[string]interface{}{"seq": seqWit{levels, cur, ""}})})
					} else {
						c.Violate(&fw.Violation{Signature: sg})
					}
				}
			}
			if len(cur) == depth || (levels == 3 && len(cur) == depth-1) {
				return
			}
			for _, o := range alpha {
				rec(append(append([]sop{}, cur...), o))
			}
		}
		rec(nil)
	}
	// A3: the same histories (<= 2 operations) on chains of application scopes whose parents are live,
	// stopped or killed when the child is created
	for _, mode := range []string{"scope", "scope-stopped", "scope-killed"} {
		for levels := 2; levels <= 3; levels++ {
			alpha := seqAlphabet(levels)
			var hs [][]sop
			for _, a := range alpha {
				hs = append(hs, []sop{a})
				for _, b := range alpha {
					hs = append(hs, []sop{a, b})
				}
			}
			for _, h := range hs {
				item++
				if !c.Mine(item) {
					continue
				}
				c.R.Evaluations++
				c.Count("sequential_histories_on_application_scopes", 1)
				if d := runSeqMode(mode, levels, h); d != "" {
					sg := "C13/overlay-mismatch/" + mode
					if !c.Violated(sg) {
						c.Violate(&fw.Violation{Property: "C13", Clause: "a child returns its own value when it has one and otherwise the parent's current value; setting a value in the child never changes the parent", Signature: sg, Detail: "chain of application scopes (" + mode + "): " + d, Witness: fw.JSON(map[string]interface{}{"seq": seqWit{levels, h, mode}})})
					} else {
						c.Violate(&fw.Violation{Signature: sg})
					}
				}
			}
		}
	}
	// B
	ps := programs(c.Thorough())
	c.R.Info["concurrent_programs"] = len(ps)
	for i, sp := range ps {
		if c.Expired() {
			c.NotExhaustive("deadline")
			break
		}
		if !explore.RunProgram(c, mkProgram(sp)) && c.R.InfraError != "" {
			return
		}
		if i%11 == 0 && c.Shard == 0 {
			c.Sample(map[string]interface{}{"program": sp})
		}
	}
}

func replay(wj json.RawMessage) (*fw.Violation, error) {
	var w struct {
		Seq     *seqWit `json:"seq"`
		Spec    Spec    `json:"spec"`
		Choices []int   `json:"choices"`
	}
	if err := json.Unmarshal(wj, &w); err != nil {
		return nil, err
	}
	if w.Seq != nil {
		if d := runSeqMode(w.Seq.Mode, w.Seq.Levels, w.Seq.Hist); d != "" {
			return &fw.Violation{Property: "C13", Clause: "overlay", Signature: "C13/overlay-mismatch", Detail: d}, nil
		}
		return nil, nil
	}
	return explore.ReplayProgram(mkProgram(w.Spec), w.Choices)
}

func init() {
	fw.Register(&fw.Check{ID: "C13", Level: "model_checking",
		Rule: "sequential: every history of <=3 (quick) / <=4 (thorough) operations {SetValue, locked Value+SetValue+Commit} x levels x keys{k1,k2} x values{1,2,nil} on chains of depth 1-3, followed by plain and locked reads of every key on every level, against a list-of-maps overlay model; concurrent: 33 programs (2-3 threads from {locked increment, plain SetValue, plain Value, Keys, locked increment of another key, locked read}; get-or-create services envs/waits/tasks with 2-3 callers) on a root data scope, a child data scope and a full scope, every schedule with <= bound preemptions; oracle: the recorded call/return history must be linearizable (porcupine) with each locked section as ONE atomic step and must end in the final value; services return one instance; race oracle on the datascope maps. states = distinct schedule traces",
		Run: run, Replay: replay,
		Assumptions: []string{"Keys() is exercised but its content is not judged (the statement does not define it for children)", "2-3 threads, preemption bounds as reported"}})
}
