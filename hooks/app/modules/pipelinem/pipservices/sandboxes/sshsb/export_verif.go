//go:build verif

package sshsb

import (
	"io"

	"github.com/goatcms/goatcore/app/modules/commonm/commservices"
)

// VerifInitSequence exports the private start-up script builder of the SSH sandbox for the
// verification harness (property C18). Added through the build overlay only.
func VerifInitSequence(envs commservices.Environments, entrypoint string) (io.Reader, error) {
	return (&SSHSandbox{entrypoint: entrypoint}).initSequence(envs)
}
