// vinstr: stand-alone front end of the instrumenter (debugging aid).
package main

import (
	"fmt"
	"os"
	"sort"

	"verif/instr"
)

func main() {
	out := os.Args[1]
	ov, st, err := instr.Run(instr.Options{Repo: "/repo", ShimDir: "/verif/shim/vsched", HooksDir: "/verif/hooks", OutDir: out, ConstToVar: []string{"filesystem/fsloop.ChanSize"}})
	if err != nil {
		fmt.Fprintln(os.Stderr, "instrument:", err)
		os.Exit(2)
	}
	fmt.Println("overlay:", ov, "packages:", st.Packages, "files:", st.Files, "rewritten:", st.Rewritten)
	var ks []string
	for k := range st.Counts {
		ks = append(ks, k)
	}
	sort.Strings(ks)
	for _, k := range ks {
		fmt.Println(" ", k, st.Counts[k])
	}
}
