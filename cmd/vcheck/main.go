// vcheck is the driver behind every MANIFEST command:
//
//	bin/vcheck <ID> --tier quick|thorough      explore, write evidence/<ID>.json, exit 0/1
//	bin/vcheck <ID> --replay <file>            re-execute one recorded witness
//	bin/vcheck --warm                          instrument + build only (setup)
//
// It instruments /repo's *current working tree* into a scratch overlay, builds the harness
// binary against it, runs the check in parallel worker processes, merges their reports,
// classifies violations against known_findings.json and removes the scratch directory.
package main

import (
	"crypto/sha1"
	"encoding/json"
	"fmt"
	"os"
	"os/exec"
	"path/filepath"
	"runtime"
	"sort"
	"strconv"
	"strings"
	"sync"
	"syscall"
	"time"

	"verif/fw"
	"verif/instr"
)

const verifDir = "/verif"

// repoDir is /repo; VCHECK_REPO points the driver at another checkout (used only by
// tools/seed_eval_alt.sh to judge a seeded change in a scratch worktree while /repo is busy) -
// the evidence of such a run goes to evidence-alt/, never to evidence/.
var (
	repoDir     = "/repo"
	evidenceDir = "evidence"
)

func init() {
	if r := os.Getenv("VCHECK_REPO"); r != "" {
		repoDir, evidenceDir = r, "evidence-alt"
	}
}

type knownFinding struct {
	Property  string `json:"property"`
	Status    string `json:"status"` // "known" | "fixed"
	Signature string `json:"signature,omitempty"`
	Commit    string `json:"commit,omitempty"`
	What      string `json:"what"`
	Line      string `json:"line,omitempty"`
}

type knownFile struct {
	Findings []knownFinding `json:"findings"`
}

func goEnv() []string {
	env := os.Environ()
	env = append(env, "GOFLAGS=-mod=mod", "GOPROXY=off", "GOSUMDB=off", "GOTOOLCHAIN=local", "CGO_ENABLED=0")
	return env
}

func die(code int, format string, a ...interface{}) {
	fmt.Fprintf(os.Stderr, format+"\n", a...)
	os.Exit(code)
}

func main() {
	args := os.Args[1:]
	id := ""
	tier := os.Getenv("VERIF_TIER")
	replay := ""
	warm := false
	keep := false
	shards := 0
	budget := time.Duration(0)
	for i := 0; i < len(args); i++ {
		switch a := args[i]; {
		case a == "--tier" && i+1 < len(args):
			tier = args[i+1]
			i++
		case a == "--replay" && i+1 < len(args):
			replay = args[i+1]
			i++
		case a == "--shards" && i+1 < len(args):
			shards, _ = strconv.Atoi(args[i+1])
			i++
		case a == "--budget" && i+1 < len(args):
			budget, _ = time.ParseDuration(args[i+1])
			i++
		case a == "--warm":
			warm = true
		case a == "--keep":
			keep = true
		case strings.HasPrefix(a, "-"):
			die(2, "unknown flag %s", a)
		default:
			id = a
		}
	}
	if tier == "" {
		tier = "quick"
	}
	if tier != "quick" && tier != "thorough" {
		die(2, "bad tier %q", tier)
	}
	if id == "" && !warm {
		die(2, "usage: vcheck <ID> --tier quick|thorough | --replay file | --warm")
	}
	seed := int64(0)
	if s := os.Getenv("VERIF_SEED"); s != "" {
		seed, _ = strconv.ParseInt(s, 10, 64)
	}
	start := time.Now()
	tmpRoot := os.Getenv("TMPDIR")
	if tmpRoot == "" {
		tmpRoot = "/tmp"
		if fi, err := os.Stat("/dev/shm"); err == nil && fi.IsDir() {
			tmpRoot = "/dev/shm" // tmpfs: the disk-filespace checks are syscall bound
		}
	}
	scratch, err := os.MkdirTemp(tmpRoot, "vcheck-"+id+"-")
	if err != nil {
		die(2, "scratch: %v", err)
	}
	cleanup := func() {
		if !keep {
			os.RemoveAll(scratch)
		}
	}
	defer cleanup()
	exit := func(code int) {
		cleanup()
		os.Exit(code)
	}

	// 1. instrument the current working tree
	ov, st, err := instr.Run(instr.Options{Repo: repoDir, ShimDir: filepath.Join(verifDir, "shim", "vsched"), HooksDir: filepath.Join(verifDir, "hooks"),
		OutDir: scratch, ConstToVar: []string{"filesystem/fsloop.ChanSize"}})
	if err != nil {
		fmt.Fprintf(os.Stderr, "CANNOT-INSTRUMENT: %v\n", err)
		exit(2)
	}
	for k := range st.Counts {
		if strings.HasPrefix(k, "WARNING-sync/atomic") {
			fmt.Fprintf(os.Stderr, "note: %s\n", k)
		}
	}
	// 2. build the harness against the overlay
	bin := filepath.Join(scratch, "vharness")
	buildArgs := []string{"build", "-overlay", ov, "-tags", "verif", "-o", bin}
	if repoDir != "/repo" {
		// alternative checkout: same go.mod with the replace directive pointing there
		gm, _ := os.ReadFile(filepath.Join(verifDir, "go.mod"))
		gs, _ := os.ReadFile(filepath.Join(verifDir, "go.sum"))
		alt := strings.Replace(string(gm), "=> /repo", "=> "+repoDir, 1)
		os.WriteFile(filepath.Join(scratch, "go.mod"), []byte(alt), 0o644)
		os.WriteFile(filepath.Join(scratch, "go.sum"), gs, 0o644)
		buildArgs = append(buildArgs, "-modfile="+filepath.Join(scratch, "go.mod"))
	}
	cmd := exec.Command("go", append(buildArgs, "./cmd/vharness")...)
	cmd.Dir = verifDir
	cmd.Env = goEnv()
	if out, err := cmd.CombinedOutput(); err != nil {
		fmt.Fprintf(os.Stderr, "CANNOT-BUILD (instrumented goatcore + harness):\n%s\n", out)
		exit(2)
	}
	if warm {
		fmt.Printf("warm: instrumented %d/%d files of %d packages, harness built in %.1fs\n", st.Rewritten, st.Files, st.Packages, time.Since(start).Seconds())
		exit(0)
	}
	if replay != "" {
		c := exec.Command(bin, "-check", id, "-replay", replay)
		c.Stdout, c.Stderr = os.Stdout, os.Stderr
		c.Dir = verifDir
		err := c.Run()
		if ee, ok := err.(*exec.ExitError); ok {
			exit(ee.ExitCode())
		} else if err != nil {
			exit(2)
		}
		exit(0)
	}

	// 3. run the shards
	if shards <= 0 {
		shards = runtime.NumCPU()
		if shards > 16 {
			shards = 16
		}
	}
	if budget == 0 {
		budget = 240 * time.Second
		if tier == "thorough" {
			budget = 12 * time.Minute
		}
	}
	reports := make([]*fw.Report, shards)
	errs := make([]string, shards)
	var wg sync.WaitGroup
	for i := 0; i < shards; i++ {
		wg.Add(1)
		go func(i int) {
			defer wg.Done()
			out := filepath.Join(scratch, fmt.Sprintf("report-%d.json", i))
			wdir := filepath.Join(scratch, fmt.Sprintf("w%d", i))
			os.MkdirAll(wdir, 0o755)
			c := exec.Command("sh", "-c", "ulimit -v 16000000; exec \"$@\"", "sh", bin, "-check", id, "-tier", tier, "-shard", strconv.Itoa(i), "-shards", strconv.Itoa(shards),
				"-seed", strconv.FormatInt(seed, 10), "-out", out, "-budget", budget.String())
			c.Dir = verifDir
			c.SysProcAttr = &syscall.SysProcAttr{Pdeathsig: syscall.SIGKILL} // workers die with the driver
			c.Env = append(os.Environ(), "GOMAXPROCS=2", "VCHECK_SCRATCH="+wdir, "GOTRACEBACK=single")
			var buf strings.Builder
			c.Stdout, c.Stderr = &buf, &buf
			if err := c.Start(); err != nil {
				errs[i] = err.Error()
				return
			}
			done := make(chan error, 1)
			go func() { done <- c.Wait() }()
			select {
			case err := <-done:
				if err != nil {
					errs[i] = fmt.Sprintf("worker %d: %v\n%s", i, err, tail(buf.String(), 3000))
					return
				}
			case <-time.After(budget + 90*time.Second):
				c.Process.Kill()
				<-done
				errs[i] = fmt.Sprintf("worker %d: killed after hard timeout\n%s", i, tail(buf.String(), 2000))
				return
			}
			b, err := os.ReadFile(out)
			if err != nil {
				errs[i] = err.Error()
				return
			}
			var r fw.Report
			if err := json.Unmarshal(b, &r); err != nil {
				errs[i] = err.Error()
				return
			}
			reports[i] = &r
		}(i)
	}
	wg.Wait()

	// 4. merge
	merged := &fw.Report{Check: id, Tier: tier, Exhaustive: true, Counters: map[string]int64{}, MaxCounters: map[string]int64{}, Sets: map[string][]string{}, Info: map[string]interface{}{}}
	sets := map[string]map[string]bool{}
	vio := map[string]*fw.Violation{}
	var vioOrder []string
	infra := []string{}
	for i, r := range reports {
		if r == nil {
			merged.Exhaustive = false
			infra = append(infra, errs[i])
			continue
		}
		merged.States += r.States
		merged.Transitions += r.Transitions
		merged.Traces += r.Traces
		merged.Evaluations += r.Evaluations
		merged.Distinct += r.Distinct
		merged.Programs += r.Programs
		for _, s := range r.Samples {
			if len(merged.Samples) < 8 {
				merged.Samples = append(merged.Samples, s)
			}
		}
		if !r.Exhaustive {
			merged.Exhaustive = false
			if merged.Capped == "" {
				merged.Capped = r.Capped
			}
		}
		if r.InfraError != "" {
			infra = append(infra, fmt.Sprintf("worker %d: %s", i, r.InfraError))
		}
		for k, v := range r.Counters {
			merged.Counters[k] += v
		}
		for k, v := range r.MaxCounters {
			if v > merged.MaxCounters[k] {
				merged.MaxCounters[k] = v
			}
		}
		for k, l := range r.Sets {
			if sets[k] == nil {
				sets[k] = map[string]bool{}
			}
			for _, m := range l {
				sets[k][m] = true
			}
		}
		for k, v := range r.Info {
			if _, ok := merged.Info[k]; !ok {
				merged.Info[k] = v
			}
		}
		for _, v := range r.Violations {
			if old, ok := vio[v.Signature]; ok {
				old.Count += v.Count
			} else {
				vio[v.Signature] = v
				vioOrder = append(vioOrder, v.Signature)
			}
		}
	}
	sort.Strings(vioOrder)

	// 5. classify
	var kf knownFile
	if b, err := os.ReadFile(filepath.Join(verifDir, "known_findings.json")); err == nil {
		if err := json.Unmarshal(b, &kf); err != nil {
			die(2, "known_findings.json: %v", err)
		}
	}
	known := map[string]knownFinding{}
	for _, f := range kf.Findings {
		if f.Property == id && f.Status == "known" {
			known[f.Signature] = f
		}
	}
	os.MkdirAll(filepath.Join(verifDir, "replays"), 0o755)
	os.MkdirAll(filepath.Join(verifDir, evidenceDir), 0o755)
	nUnlisted := 0
	var lines []string
	var vioSummary []map[string]interface{}
	for _, sig := range vioOrder {
		v := vio[sig]
		h := sha1.Sum([]byte(sig))
		rp := filepath.Join(verifDir, "replays", fmt.Sprintf("%s-%x.json", id, h[:5]))
		b, _ := json.MarshalIndent(v, "", " ")
		os.WriteFile(rp, b, 0o644)
		status := "VIOLATION"
		if f, ok := known[sig]; ok {
			status = "KNOWN-FINDING"
			lines = append(lines, fmt.Sprintf("KNOWN-FINDING: property=%s %s [%s] replay=%s", id, f.What, sig, rp))
		} else {
			nUnlisted++
			lines = append(lines, fmt.Sprintf("VIOLATION property=%s replay=%s", id, rp))
			if nUnlisted <= 12 {
				lines = append(lines, fmt.Sprintf("  signature: %s\n  clause: %s\n  detail: %s", sig, v.Clause, indent(head(v.Detail, 1500))))
			} else {
				lines = append(lines, fmt.Sprintf("  signature: %s", sig))
			}
		}
		vioSummary = append(vioSummary, map[string]interface{}{"signature": sig, "status": status, "clause": v.Clause, "count": v.Count, "replay": rp})
	}

	// 6. evidence
	chk := checkMeta(bin, id)
	cov := map[string]interface{}{
		"evaluations":                   merged.Evaluations,
		"distinct_nontrivial":           merged.Distinct,
		"rule":                          chk.Rule,
		"samples":                       merged.Samples,
		"exhaustive":                    merged.Exhaustive && len(infra) == 0,
		"shards":                        shards,
		"instrumented_files":            st.Rewritten,
		"instrumentation":               st.Counts,
		"violation_signatures":          vioSummary,
	}
	if merged.States > 0 {
		cov["states"] = merged.States
		cov["transitions"] = merged.Transitions
		cov["traces_validated_against_impl"] = merged.Traces
	}
	if merged.Programs > 0 {
		cov["programs"] = merged.Programs
	}
	if merged.Capped != "" {
		cov["capped"] = merged.Capped
	}
	if len(infra) > 0 {
		cov["infrastructure_notes"] = infra
	}
	for k, v := range merged.Counters {
		cov[k] = v
	}
	for k, v := range merged.MaxCounters {
		cov["max_"+k] = v
	}
	for k, s := range sets {
		cov["distinct_"+k] = len(s)
		var l []string
		for m := range s {
			l = append(l, m)
		}
		sort.Strings(l)
		if len(l) > 12 {
			l = l[:12]
		}
		cov["some_"+k] = l
	}
	for k, v := range merged.Info {
		cov[k] = v
	}
	if merged.Samples == nil {
		cov["samples"] = []interface{}{}
	}
	ev := map[string]interface{}{
		"property_id": id,
		"tier":        tier,
		"seed":        seed,
		"level":       chk.Level,
		"coverage":    cov,
		"assumptions": chk.Assumptions,
		"wall_s":      time.Since(start).Seconds(),
		"violations":  nUnlisted,
	}
	eb, _ := json.MarshalIndent(ev, "", " ")
	if err := os.WriteFile(filepath.Join(verifDir, evidenceDir, id+".json"), eb, 0o644); err != nil {
		die(2, "evidence: %v", err)
	}
	for _, l := range lines {
		fmt.Println(l)
	}
	for _, e := range infra {
		fmt.Fprintf(os.Stderr, "INFRA: %s\n", tail(e, 2000))
	}
	fmt.Printf("%s %s: evaluations=%d states=%d transitions=%d exhaustive=%v signatures=%d unlisted=%d wall=%.1fs\n", id, tier, merged.Evaluations, merged.States, merged.Transitions,
		merged.Exhaustive && len(infra) == 0, len(vioOrder), nUnlisted, time.Since(start).Seconds())
	if nUnlisted > 0 {
		exit(1)
	}
	exit(0)
}

type meta struct {
	Level       string
	Rule        string
	Assumptions []string
}

func checkMeta(bin, id string) meta {
	out, err := exec.Command(bin, "-check", id, "-meta").Output()
	var m meta
	if err == nil {
		json.Unmarshal(out, &m)
	}
	if m.Level == "" {
		m.Level = "model_checking"
	}
	if m.Assumptions == nil {
		m.Assumptions = []string{}
	}
	return m
}

func tail(s string, n int) string {
	if len(s) > n {
		return "..." + s[len(s)-n:]
	}
	return s
}

func indent(s string) string { return strings.ReplaceAll(s, "\n", "\n    ") }

func head(s string, n int) string {
	if len(s) > n {
		return s[:n] + "..."
	}
	return s
}
