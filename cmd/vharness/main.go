// vharness is the single harness binary: all check packages compiled together with the
// instrumented goatcore. It is only ever started by bin/vcheck.
package main

import (
	"runtime/pprof"
	"encoding/json"
	"flag"
	"fmt"
	"os"
	"runtime/debug"
	"time"

	_ "verif/checks"
	"verif/fw"
)

func main() {
	check := flag.String("check", "", "check id")
	tier := flag.String("tier", "quick", "quick|thorough")
	shard := flag.Int("shard", 0, "")
	shards := flag.Int("shards", 1, "")
	seed := flag.Int64("seed", 0, "")
	out := flag.String("out", "", "report file")
	replay := flag.String("replay", "", "witness file to replay")
	budget := flag.Duration("budget", 60*time.Second, "worker time budget")
	meta := flag.Bool("meta", false, "print check metadata")
	cpuprof := flag.String("cpuprofile", "", "write a CPU profile (diagnostics)")
	flag.Parse()
	if *cpuprof != "" {
		if f, err := os.Create(*cpuprof); err == nil {
			pprof.StartCPUProfile(f)
			defer pprof.StopCPUProfile()
		}
	}
	c := fw.Get(*check)
	if c == nil {
		fmt.Fprintf(os.Stderr, "unknown check %q (have %v)\n", *check, fw.IDs())
		os.Exit(2)
	}
	if *meta {
		b, _ := json.Marshal(map[string]interface{}{"Level": c.Level, "Rule": c.Rule, "Assumptions": c.Assumptions})
		os.Stdout.Write(b)
		return
	}
	if *replay != "" {
		b, err := os.ReadFile(*replay)
		if err != nil {
			fmt.Fprintln(os.Stderr, err)
			os.Exit(2)
		}
		var v fw.Violation
		if err := json.Unmarshal(b, &v); err != nil {
			fmt.Fprintln(os.Stderr, "bad replay file:", err)
			os.Exit(2)
		}
		if c.Replay == nil {
			fmt.Fprintln(os.Stderr, "check has no replay")
			os.Exit(2)
		}
		got, err := c.Replay(v.Witness)
		if err != nil {
			fmt.Fprintln(os.Stderr, "replay error:", err)
			os.Exit(2)
		}
		if got == nil {
			fmt.Println("REPLAY-PASS: the witness no longer violates the property")
			os.Exit(0)
		}
		fmt.Printf("REPLAY-FAIL property=%s signature=%s clause=%s\n%s\n", got.Property, got.Signature, got.Clause, got.Detail)
		os.Exit(1)
	}
	start := time.Now()
	ctx := fw.NewCtx(*check, *tier, *shard, *shards, *seed, start.Add(*budget))
	func() {
		defer func() {
			if r := recover(); r != nil {
				ctx.Infra("harness panic: %v\n%s", r, debug.Stack())
			}
		}()
		c.Run(ctx)
	}()
	if err := ctx.Finish(*out, time.Since(start).Seconds()); err != nil {
		fmt.Fprintln(os.Stderr, err)
		os.Exit(2)
	}
}
