#!/bin/sh
# Build the framework offline from files on disk and warm the instrumented build.
set -e
cd /verif
export GOFLAGS=-mod=mod GOPROXY=off GOSUMDB=off GOTOOLCHAIN=local CGO_ENABLED=0
mkdir -p bin evidence replays
go build -o bin/vcheck ./cmd/vcheck
go build -o bin/vinstr ./cmd/vinstr
./bin/vcheck --warm
