module verif

go 1.23

require (
	github.com/anishathalye/porcupine v1.3.0
	github.com/goatcms/goatcore v0.0.0-00010101000000-000000000000
	golang.org/x/tools v0.29.0
)

require (
	github.com/buger/jsonparser v0.0.0-20180808090653-f4dd9f5a6b44 // indirect
	github.com/denisbrodbeck/machineid v1.0.1 // indirect
	github.com/mitchellh/go-homedir v1.1.0 // indirect
	golang.org/x/crypto v0.0.0-20210415154028-4f45737414dc // indirect
	golang.org/x/mod v0.22.0 // indirect
	golang.org/x/sync v0.10.0 // indirect
)

replace github.com/goatcms/goatcore => /repo
