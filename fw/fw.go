// Package fw is the small contract between the check harnesses (compiled together with
// the instrumented goatcore into bin/vharness) and the driver (bin/vcheck).
package fw

import (
	"encoding/json"
	"fmt"
	"os"
	"sort"
	"sync"
	"time"
)

// Violation is one witnessed failure of a property clause on the real code.
type Violation struct {
	Property  string          `json:"property"`
	Clause    string          `json:"clause"`    // which part of the statement is contradicted
	Signature string          `json:"signature"` // narrow identity used by known_findings.json
	Detail    string          `json:"detail"`    // expected vs observed
	Witness   json.RawMessage `json:"witness"`   // replayable input / history / schedule
	Count     int64           `json:"count"`     // how many explored cases showed this signature
}

// Report is what one worker process writes.
type Report struct {
	Check       string                 `json:"check"`
	Shard       int                    `json:"shard"`
	Shards      int                    `json:"shards"`
	Tier        string                 `json:"tier"`
	States      int64                  `json:"states"`
	Transitions int64                  `json:"transitions"`
	Traces      int64                  `json:"traces_validated_against_impl"`
	Evaluations int64                  `json:"evaluations"`
	Distinct    int64                  `json:"distinct_nontrivial"`
	Programs    int64                  `json:"programs"`
	Samples     []interface{}          `json:"samples"`
	Violations  []*Violation           `json:"violations"`
	Exhaustive  bool                   `json:"exhaustive"`
	Capped      string                 `json:"capped,omitempty"`
	Counters    map[string]int64       `json:"counters"` // summed across shards
	MaxCounters map[string]int64       `json:"max_counters"`
	Sets        map[string][]string    `json:"sets"` // unioned across shards (distinct outcomes etc.)
	Info        map[string]interface{} `json:"info"` // taken from shard 0
	InfraError  string                 `json:"infra_error,omitempty"`
	WallS       float64                `json:"wall_s"`
}

// Ctx is handed to a check's Run function.
type Ctx struct {
	Tier     string
	Shard    int
	Shards   int
	Seed     int64
	Deadline time.Time
	R        *Report
	mu       sync.Mutex
	vioIdx   map[string]*Violation
	setIdx   map[string]map[string]bool
}

// Thorough tells whether the thorough tier was requested.
func (c *Ctx) Thorough() bool { return c.Tier == "thorough" }

// Expired reports whether the worker deadline has passed.
func (c *Ctx) Expired() bool { return !c.Deadline.IsZero() && time.Now().After(c.Deadline) }

// Mine tells whether work item i belongs to this shard.
func (c *Ctx) Mine(i int) bool { return c.Shards <= 1 || i%c.Shards == c.Shard }

// Count adds to a summed counter.
func (c *Ctx) Count(name string, d int64) {
	c.R.Counters[name] += d
}

// Max records a maximum counter.
func (c *Ctx) Max(name string, v int64) {
	if v > c.R.MaxCounters[name] {
		c.R.MaxCounters[name] = v
	}
}

// SetAdd adds a member to a named set (bounded to 5000 members).
func (c *Ctx) SetAdd(name, member string) {
	s := c.setIdx[name]
	if s == nil {
		s = map[string]bool{}
		c.setIdx[name] = s
	}
	if len(s) < 5000 {
		s[member] = true
	}
}

// SetLen returns the size of a named set in this shard.
func (c *Ctx) SetLen(name string) int { return len(c.setIdx[name]) }

// Sample keeps up to 6 written-out cases per shard.
func (c *Ctx) Sample(v interface{}) {
	if len(c.R.Samples) < 6 {
		c.R.Samples = append(c.R.Samples, v)
	}
}

// Violate records a violation (deduplicated by signature; the first witness is kept).
func (c *Ctx) Violate(v *Violation) {
	c.mu.Lock()
	defer c.mu.Unlock()
	if old, ok := c.vioIdx[v.Signature]; ok {
		old.Count++
		return
	}
	v.Count = 1
	c.vioIdx[v.Signature] = v
	c.R.Violations = append(c.R.Violations, v)
}

// Violated reports whether a signature was already recorded.
func (c *Ctx) Violated(sig string) bool {
	_, ok := c.vioIdx[sig]
	return ok
}

// NViolations returns the number of distinct signatures so far.
func (c *Ctx) NViolations() int { return len(c.R.Violations) }

// Infra records an infrastructure error (never a VIOLATION).
func (c *Ctx) Infra(format string, a ...interface{}) {
	if c.R.InfraError == "" {
		c.R.InfraError = fmt.Sprintf(format, a...)
	}
}

// JSON marshals a witness.
func JSON(v interface{}) json.RawMessage {
	b, err := json.Marshal(v)
	if err != nil {
		b, _ = json.Marshal(fmt.Sprintf("unmarshalable witness: %v", err))
	}
	return b
}

// Check is one registered property harness.
type Check struct {
	ID    string
	Level string // evidence level: model_checking | exploration | fault_enumeration
	Rule  string // how cases are enumerated and what makes one distinct/non-trivial
	// Run explores and reports into ctx.
	Run func(c *Ctx)
	// Replay re-executes one witness on the current tree without the explorer and returns the
	// violation it reproduces (nil if the witness passes now).
	Replay func(witness json.RawMessage) (*Violation, error)
	Assumptions []string
}

var registry = map[string]*Check{}

// Register adds a check.
func Register(c *Check) { registry[c.ID] = c }

// Get returns a check.
func Get(id string) *Check { return registry[id] }

// IDs lists registered checks.
func IDs() []string {
	var ids []string
	for k := range registry {
		ids = append(ids, k)
	}
	sort.Strings(ids)
	return ids
}

// NewCtx builds a worker context.
func NewCtx(check, tier string, shard, shards int, seed int64, deadline time.Time) *Ctx {
	return &Ctx{Tier: tier, Shard: shard, Shards: shards, Seed: seed, Deadline: deadline,
		R: &Report{Check: check, Shard: shard, Shards: shards, Tier: tier, Exhaustive: true,
			Counters: map[string]int64{}, MaxCounters: map[string]int64{}, Sets: map[string][]string{}, Info: map[string]interface{}{}},
		vioIdx: map[string]*Violation{}, setIdx: map[string]map[string]bool{}}
}

// Finish materialises sets and writes the report.
func (c *Ctx) Finish(path string, wall float64) error {
	for k, s := range c.setIdx {
		var l []string
		for m := range s {
			l = append(l, m)
		}
		sort.Strings(l)
		c.R.Sets[k] = l
	}
	c.R.WallS = wall
	b, err := json.Marshal(c.R)
	if err != nil {
		return err
	}
	return os.WriteFile(path, b, 0o644)
}

// NotExhaustive marks the run as capped.
func (c *Ctx) NotExhaustive(reason string) {
	c.R.Exhaustive = false
	if c.R.Capped == "" {
		c.R.Capped = reason
	}
}
