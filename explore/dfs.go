// Package explore contains the exhaustive exploration engines: the deviation-bounded
// stateless schedule explorer (this file) and helpers for explicit-state search and
// bounded enumeration (other files).
package explore

import (
	"fmt"
	"hash/fnv"
	"time"

	"github.com/goatcms/goatcore/zzverif/vsched"
)

// Point is one recorded choice point of an execution.
type Point struct {
	Kind     int
	N        int
	RunEn    bool
	Chosen   int
	TracePos int // number of trace steps executed before this choice
	Thread   int // running thread at the choice
}

// Exec is the record of one complete execution.
type Exec struct {
	Choices []int
	Points  []Point
	Res     *vsched.Result
	Cost    int
}

// Options of a schedule exploration.
type Options struct {
	Bound      int // maximum total cost (preemptions + costed deviations); <0 = unbounded
	Focus      []string
	Race       bool
	MapPerm    bool
	MaxSteps   int
	Shard      int
	Shards     int
	Deadline   time.Time
	MaxExecs   int64
	SelectCost int // cost of choosing a non-first ready select clause (default 1)
	EnvCost    int // cost of a non-default environment answer (default 0)
	MapCost    int // cost of a non-canonical map order (default 1)
	NoShard    bool
	OnlyKinds  []int // if set, alternatives are explored only at choice points of these kinds
	HBRAuxNeutral bool // HBR: accesses to objects outside the focus set do not order executions (declared reduction)
	HBR        bool  // prune prefixes whose happens-before state was already explored with at least the same budget
}

// Stats of an exploration.
type Stats struct {
	Execs      int64
	Steps      int64
	MaxPoints  int
	MaxSteps   int
	Capped     bool   // stopped by deadline or MaxExecs: NOT exhaustive
	CapReason  string
	Bound      int
	SeenStates int64 // distinct happens-before states expanded
	Pruned     int64 // subtrees skipped by the happens-before cache
	Deadlocks  int64
	Horizons   int64
	TraceKinds int64 // distinct schedule traces (by hash)
	traces     map[uint64]struct{}
}

type chooser struct {
	prefix []int
	pos    int
	points []Point
	bad    string
}

func (c *chooser) Choose(kind, n int, runEn bool) int {
	ch := 0
	if c.pos < len(c.prefix) {
		ch = c.prefix[c.pos]
		if ch >= n {
			if c.bad == "" {
				c.bad = fmt.Sprintf("replay divergence at choice %d: recorded %d of %d options", c.pos, ch, n)
			}
			ch = 0
		}
	}
	c.pos++
	c.points = append(c.points, Point{kind, n, runEn, ch, vsched.TraceLen(), vsched.ThreadID()})
	return ch
}

// RunOnce executes body under the given choice prefix (default choices afterwards).
func RunOnce(opt *Options, prefix []int, body func()) (*Exec, error) {
	c := &chooser{prefix: prefix}
	res := vsched.Run(vsched.Config{Chooser: c, MaxSteps: opt.MaxSteps, Focus: opt.Focus, Race: opt.Race, MapPerm: opt.MapPerm}, body)
	if c.bad != "" {
		return nil, fmt.Errorf("REPLAY-DIVERGENCE: %s", c.bad)
	}
	if res.InfraError != "" {
		return nil, fmt.Errorf("INFRA: %s", res.InfraError)
	}
	if c.pos < len(prefix) {
		return nil, fmt.Errorf("REPLAY-DIVERGENCE: execution ended after %d of %d recorded choices", c.pos, len(prefix))
	}
	x := &Exec{Points: c.points, Res: res}
	x.Choices = make([]int, len(c.points))
	for i, p := range c.points {
		x.Choices[i] = p.Chosen
	}
	return x, nil
}

func (o *Options) altCost(p Point) int {
	switch p.Kind {
	case vsched.KindThread:
		if p.RunEn {
			return 1
		}
		return 0
	case vsched.KindSelect:
		if o.SelectCost == 0 {
			return 1
		}
		if o.SelectCost < 0 {
			return 0
		}
		return o.SelectCost
	case vsched.KindMap:
		if o.MapCost == 0 {
			return 1
		}
		if o.MapCost < 0 {
			return 0
		}
		return o.MapCost
	default:
		return o.EnvCost
	}
}

// TraceHash hashes the executed schedule (thread/op/object sequence).
func TraceHash(r *vsched.Result) uint64 {
	h := fnv.New64a()
	var b [12]byte
	for _, s := range r.Trace {
		b[0], b[1], b[2], b[3] = byte(s.Thread), byte(s.Thread>>8), byte(s.Obj), byte(s.Obj>>8)
		n := copy(b[4:], s.Op)
		h.Write(b[:4+n])
	}
	return h.Sum64()
}

type item struct {
	prefix []int
	cost   int
	depth  int // number of deviations from the base execution
}

// shardDepth: executions with fewer deviations than this are run by EVERY worker (visited and
// counted by worker 0 only) and expanded without the happens-before cache, so that all workers
// enumerate the same children in the same order; the subtrees below are dealt out round-robin.
const shardDepth = 2

// Explore enumerates every execution of body whose deviation cost is <= opt.Bound and
// calls visit on each. visit returns false to stop the exploration early.
func Explore(opt Options, body func(), visit func(*Exec) bool) (Stats, error) {
	st := Stats{Bound: opt.Bound, traces: map[uint64]struct{}{}}
	if opt.Shards <= 0 {
		opt.Shards = 1
	}
	stack := []item{{nil, 0, 0}}
	seen := map[hbKey]int{}
	sharded := !opt.NoShard && opt.Shards > 1
	dealIdx := 0
	for len(stack) > 0 {
		it := stack[len(stack)-1]
		stack = stack[:len(stack)-1]
		if (!opt.Deadline.IsZero() && time.Now().After(opt.Deadline)) || (opt.MaxExecs > 0 && st.Execs >= opt.MaxExecs) {
			st.Capped = true
			st.CapReason = "deadline or execution cap reached"
			break
		}
		x, err := RunOnce(&opt, it.prefix, body)
		if err != nil {
			return st, err
		}
		x.Cost = it.cost
		common := sharded && it.depth < shardDepth // run by every worker
		if !(common && opt.Shard != 0) {
			st.Execs++
			st.Steps += int64(x.Res.Steps)
			if len(x.Points) > st.MaxPoints {
				st.MaxPoints = len(x.Points)
			}
			if x.Res.Steps > st.MaxSteps {
				st.MaxSteps = x.Res.Steps
			}
			if x.Res.Deadlock {
				st.Deadlocks++
			}
			if x.Res.Horizon {
				st.Horizons++
			}
			st.traces[TraceHash(x.Res)] = struct{}{}
			if !visit(x) {
				st.TraceKinds = int64(len(st.traces))
				return st, nil
			}
		}
		// children: deviate at every point after the prefix
		cost := it.cost
		var kids []item
		var hb *hbHasher
		if opt.HBR && !common {
			hb = newHB(x.Res.Trace)
			hb.auxNeutral = opt.HBRAuxNeutral
		}
		for i := len(it.prefix); i < len(x.Points); i++ {
			p := x.Points[i]
			if hb != nil {
				key := hbKey{hb.upTo(p.TracePos), int32(p.Thread), int32(p.Kind)}
				budget := 1 << 30
				if opt.Bound >= 0 {
					budget = opt.Bound - cost
				}
				if old, ok := seen[key]; ok && old >= budget {
					// this state (and everything reachable from it within the budget) was expanded
					// before: the rest of this execution is a path through explored territory
					st.Pruned++
					break
				}
				seen[key] = budget
			}
			if len(opt.OnlyKinds) > 0 {
				ok := false
				for _, k := range opt.OnlyKinds {
					if k == p.Kind {
						ok = true
					}
				}
				if !ok {
					continue
				}
			}
			ac := opt.altCost(p)
			if opt.Bound >= 0 && cost+ac > opt.Bound {
				continue
			}
			for alt := 1; alt < p.N; alt++ {
				pre := make([]int, i+1)
				copy(pre, x.Choices[:i])
				pre[i] = alt
				kids = append(kids, item{pre, cost + ac, it.depth + 1})
			}
		}
		if sharded && it.depth == shardDepth-1 {
			// the children of this execution are the roots of the subtrees that are dealt out
			var mine []item
			for _, k := range kids {
				if dealIdx%opt.Shards == opt.Shard {
					mine = append(mine, k)
				}
				dealIdx++
			}
			kids = mine
		}
		// push in reverse so that the simplest deviation is explored first
		for i := len(kids) - 1; i >= 0; i-- {
			stack = append(stack, kids[i])
		}
	}
	st.TraceKinds = int64(len(st.traces))
	st.SeenStates = int64(len(seen))
	return st, nil
}

// Confirm re-executes a choice list n times and checks that the observation (as rendered
// by obs) is identical every time. It returns the observation and whether it was stable.
func Confirm(opt *Options, choices []int, body func(), obs func(*Exec) string, n int) (string, bool, error) {
	first := ""
	for i := 0; i < n; i++ {
		x, err := RunOnce(opt, choices, body)
		if err != nil {
			return "", false, err
		}
		o := obs(x)
		if i == 0 {
			first = o
		} else if o != first {
			return first, false, nil
		}
	}
	return first, true, nil
}

// ---- happens-before state hashing ----

type hbKey struct {
	h      uint64
	thread int32
	kind   int32
}

type hbHasher struct {
	auxNeutral bool // operations on objects outside the focus set are treated as independent
	trace []vsched.Step
	pos   int
	acc   uint64
	tIdx  map[int]int
	oVer  map[int]int
}

func newHB(trace []vsched.Step) *hbHasher {
	return &hbHasher{trace: trace, tIdx: map[int]int{}, oVer: map[int]int{}}
}

func mix(a, b, c, d uint64) uint64 {
	h := a*0x9E3779B97F4A7C15 ^ (b+0x7F4A7C15)*0xBF58476D1CE4E5B9 ^ (c+0x1CE4E5B9)*0x94D049BB133111EB ^ (d+0x133111EB)*0xD6E8FEB86659FD93
	h ^= h >> 31
	h *= 0x9E3779B97F4A7C15
	h ^= h >> 29
	return h
}

// upTo returns the order-insensitive hash of the multiset of events
// (thread, per-thread index, object, per-object version) of the first n trace steps. Two
// prefixes with the same multiset are equivalent up to commuting independent steps.
func (h *hbHasher) upTo(n int) uint64 {
	for h.pos < n && h.pos < len(h.trace) {
		s := h.trace[h.pos]
		h.pos++
		h.tIdx[s.Thread]++
		ver := 0
		if s.Obj != 0 && !(h.auxNeutral && s.Aux) {
			switch s.Op {
			case "rlock", "len", "r:chan":
				// reads commute with each other: they see, but do not bump, the object's version
			default:
				h.oVer[s.Obj]++
			}
			ver = h.oVer[s.Obj]
		}
		var opx uint64
		for i := 0; i < len(s.Op); i++ {
			opx = opx*131 + uint64(s.Op[i])
		}
		h.acc += mix(uint64(s.Thread)+1, uint64(h.tIdx[s.Thread]), uint64(int64(s.Obj))+7, uint64(ver)) ^ opx*0x2545F4914F6CDD1D
	}
	return h.acc
}
