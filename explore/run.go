package explore

import (
	"fmt"
	"os"
	"regexp"
	"sort"
	"strings"

	"github.com/goatcms/goatcore/zzverif/vsched"

	"verif/fw"
)

// Verdict of a harness oracle on one execution ("" kind = fine).
type Verdict struct {
	Kind   string
	Clause string
	Detail string
}

// Program is one closed concurrent scenario to explore.
type Program struct {
	Prop    string
	Name    string      // stable identifier (goes into the replay witness)
	Spec    interface{} // JSON-able description, enough to rebuild Body on replay
	Opt     Options
	Body    func()
	Judge   func(x *Exec) *Verdict // evaluated after every execution
	Outcome func() string          // optional: observable outcome, for distinct-outcome counting
	RaceOK  func(r vsched.RaceInfo) bool // races to ignore (outside the property's anchors); nil = report all
	// Reach lists outcomes that at least one explored schedule of the program must exhibit
	// (reachability over the exhaustively explored set; decided only when the exploration completed).
	Reach []ReachGoal
}

// ReachGoal is an outcome some schedule must reach.
type ReachGoal struct {
	Name   string
	Clause string
	Hit    func() bool // evaluated after every execution that passed the per-execution oracle
}

// Witness is the replay record of a schedule violation.
type Witness struct {
	Program string      `json:"program"`
	Spec    interface{} `json:"spec"`
	Choices []int       `json:"choices"`
	Reach   string      `json:"reach,omitempty"` // set for "no schedule reaches <goal>" violations: replay re-explores the program
}

// Generic verdicts shared by all schedule checks.
func Generic(p *Program, x *Exec) *Verdict {
	r := x.Res
	if len(r.Panics) > 0 {
		v := r.Panics[0].Value
		return &Verdict{"panic/" + short(v), "no call panics", fmt.Sprintf("thread T%d panicked: %s\n%s", r.Panics[0].Thread, v, r.Panics[0].Stack)}
	}
	if r.Horizon {
		return &Verdict{"livelock", "no call blocks forever", fmt.Sprintf("no quiescence within %d steps", r.Steps)}
	}
	if r.Deadlock {
		return &Verdict{"deadlock", "no call blocks forever", fmt.Sprintf("harness threads never finished; blocked: %v\n%s", r.Blocked, strings.Join(r.BlockedStacks, "\n"))}
	}
	return nil
}

// Races is evaluated after the harness oracle: unordered conflicting accesses.
func Races(p *Program, x *Exec) *Verdict {
	for _, rc := range x.Res.Races {
		if p.RaceOK != nil && p.RaceOK(rc) {
			continue
		}
		return &Verdict{"race/" + raceLoc(rc), "concurrent accesses to multi-word values are ordered (a racing map or slice access can crash the process or tear)", fmt.Sprintf("%s race: %s  <->  %s (unordered by happens-before in this schedule)", rc.Kind, rc.First, rc.Second)}
	}
	return nil
}

func verdict(p *Program, x *Exec) *Verdict {
	if v := Generic(p, x); v != nil {
		return v
	}
	if p.Judge != nil {
		if v := p.Judge(x); v != nil {
			return v
		}
	}
	return Races(p, x)
}

func raceLoc(r vsched.RaceInfo) string {
	a, b := siteKey(r.First), siteKey(r.Second)
	if a > b {
		a, b = b, a
	}
	return a + "~" + b
}

func siteKey(s string) string {
	// "path/file.go:123 expr" -> "file.go:expr"
	parts := strings.SplitN(s, " ", 2)
	f := parts[0]
	if i := strings.LastIndex(f, "/"); i >= 0 {
		f = f[i+1:]
	}
	if i := strings.Index(f, ":"); i >= 0 {
		f = f[:i]
	}
	if len(parts) > 1 {
		return f + ":" + parts[1]
	}
	return f
}

var detCheck = os.Getenv("VCHECK_DETERMINISM2") != ""

var idRe = regexp.MustCompile(`\[[^\]]*\]|0x[0-9a-f]+`)

func short(s string) string {
	if i := strings.IndexByte(s, '\n'); i >= 0 {
		s = s[:i]
	}
	s = idRe.ReplaceAllString(s, "[..]") // run-dependent ids (scope ids, addresses) are not part of the signature
	if len(s) > 70 {
		s = s[:70]
	}
	return s
}

// RunProgram explores p and records statistics and (confirmed) violations in c.
// It returns false when the exploration could not be completed (infra error or cap).
func RunProgram(c *fw.Ctx, p *Program) bool {
	opt := p.Opt
	opt.Shard, opt.Shards = c.Shard, c.Shards
	if opt.Deadline.IsZero() {
		opt.Deadline = c.Deadline
	}
	outcomes := map[string]bool{}
	reached := make([]bool, len(p.Reach))
	st, err := Explore(opt, p.Body, func(x *Exec) bool {
		if p.Outcome != nil && len(outcomes) < 2000 {
			outcomes[p.Outcome()] = true
		}
		if detCheck && c.SetLen("determinism") < 3 {
			ropt := opt
			if y, err := RunOnce(&ropt, x.Choices, p.Body); err != nil {
				c.SetAdd("determinism", p.Name+": "+err.Error())
			} else {
				a, b := x.Res.Trace, y.Res.Trace
				for k := 0; k < len(a) && k < len(b); k++ {
					if a[k].Thread != b[k].Thread || a[k].Op != b[k].Op || a[k].Obj != b[k].Obj {
						lo := k - 8
						if lo < 0 {
							lo = 0
						}
						c.SetAdd("determinism", fmt.Sprintf("%s: choices %v: step %d: %+v vs %+v; before: %+v", p.Name, x.Choices, k, a[k], b[k], a[lo:k]))
						break
					}
				}
			}
		}
		v := verdict(p, x)
		if v == nil {
			for gi, g := range p.Reach {
				if !reached[gi] && g.Hit() {
					reached[gi] = true
				}
			}
			return true
		}
		sig := p.Prop + "/" + v.Kind
		if c.Violated(sig) {
			c.Violate(&fw.Violation{Signature: sig})
			return true
		}
		// confirm: the same schedule must give the same verdict 5 times
		ropt := opt
		_, stable, cerr := Confirm(&ropt, x.Choices, p.Body, func(y *Exec) string {
			w := verdict(p, y)
			if w == nil {
				return ""
			}
			return w.Kind
		}, 5)
		if cerr != nil || !stable {
			c.Count("unstable_candidates", 1)
			if c.SetLen("unstable_examples") < 5 {
				var kinds []string
				for i := 0; i < 4; i++ {
					y, e2 := RunOnce(&ropt, x.Choices, p.Body)
					if e2 != nil {
						kinds = append(kinds, "ERR:"+e2.Error())
						continue
					}
					if w := verdict(p, y); w != nil {
						kinds = append(kinds, w.Kind)
					} else {
						kinds = append(kinds, "ok")
					}
				}
				c.SetAdd("unstable_examples", fmt.Sprintf("%s first=%s reruns=%v err=%v", p.Name, v.Kind, kinds, cerr))
			}
			return true
		}
		c.Violate(&fw.Violation{Property: p.Prop, Clause: v.Clause, Signature: sig,
			Detail:  fmt.Sprintf("program %s %s\nschedule (choice list, %d preemption-bounded) %v\n%s", p.Name, fw.JSON(p.Spec), opt.Bound, x.Choices, v.Detail),
			Witness: fw.JSON(Witness{Program: p.Name, Spec: p.Spec, Choices: x.Choices})})
		return true
	})
	if err != nil {
		c.Infra("program %s: %v", p.Name, err)
		return false
	}
	c.R.Evaluations += st.Execs
	c.R.Traces += st.Execs
	c.R.Transitions += st.Steps
	c.R.States += st.TraceKinds
	c.R.Distinct += st.TraceKinds
	if c.Shard == 0 || p.Opt.NoShard {
		c.R.Programs++
	}
	c.Count("hb_pruned_subtrees", st.Pruned)
	c.Count("hb_states_expanded", st.SeenStates)
	if len(c.R.Info) < 400 {
		c.R.Info["execs:"+p.Name] = st.Execs
	}
	c.Max("choice_points", int64(st.MaxPoints))
	c.Max("steps", int64(st.MaxSteps))
	c.Max("bound_completed", int64(opt.Bound))
	var ol []string
	for o := range outcomes {
		ol = append(ol, o)
	}
	sort.Strings(ol)
	for _, o := range ol {
		c.SetAdd("outcomes", p.Name+"|"+o)
	}
	if st.Capped {
		c.NotExhaustive(fmt.Sprintf("program %s: %s", p.Name, st.CapReason))
		return false
	}
	if opt.NoShard || c.Shards <= 1 {
		// the whole schedule space of the program was explored by this worker
		for gi, g := range p.Reach {
			c.Count("reach_goals_checked", 1)
			if reached[gi] {
				continue
			}
			sig := p.Prop + "/never-" + g.Name
			c.Violate(&fw.Violation{Property: p.Prop, Clause: g.Clause, Signature: sig,
				Detail:  fmt.Sprintf("program %s %s\nnone of the %d explored schedules (bound %d, exploration complete) reaches the outcome %q", p.Name, fw.JSON(p.Spec), st.Execs, opt.Bound, g.Name),
				Witness: fw.JSON(Witness{Program: p.Name, Spec: p.Spec, Reach: g.Name})})
		}
	}
	return true
}

// ReplayReach re-explores p (single process) and reports whether goal is still unreachable.
func ReplayReach(p *Program, goal string) (*fw.Violation, error) {
	opt := p.Opt
	opt.Shard, opt.Shards = 0, 1
	hit, execs := false, 0
	var g *ReachGoal
	for i := range p.Reach {
		if p.Reach[i].Name == goal {
			g = &p.Reach[i]
		}
	}
	if g == nil {
		return nil, fmt.Errorf("program %s has no reachability goal %q", p.Name, goal)
	}
	st, err := Explore(opt, p.Body, func(x *Exec) bool {
		execs++
		if verdict(p, x) == nil && g.Hit() {
			hit = true
			return false
		}
		return true
	})
	if err != nil {
		return nil, err
	}
	if hit {
		return nil, nil
	}
	if st.Capped {
		return nil, fmt.Errorf("replay exploration capped: %s", st.CapReason)
	}
	return &fw.Violation{Property: p.Prop, Clause: g.Clause, Signature: p.Prop + "/never-" + g.Name,
		Detail: fmt.Sprintf("none of the %d schedules of program %s reaches %q", execs, p.Name, goal)}, nil
}

// ReplayProgram re-executes a witness on a rebuilt program.
func ReplayProgram(p *Program, choices []int) (*fw.Violation, error) {
	opt := p.Opt
	opt.Bound = -1
	x, err := RunOnce(&opt, choices, p.Body)
	if err != nil {
		return nil, err
	}
	v := verdict(p, x)
	if v == nil {
		return nil, nil
	}
	return &fw.Violation{Property: p.Prop, Clause: v.Clause, Signature: p.Prop + "/" + v.Kind, Detail: v.Detail}, nil
}

// Determinism runs the default schedule of body n times and describes the first difference
// between the recorded traces ("" = identical): a diagnostic for uncontrolled nondeterminism.
func Determinism(opt Options, body func(), n int) string {
	var first *Exec
	for i := 0; i < n; i++ {
		x, err := RunOnce(&opt, nil, body)
		if err != nil {
			return "run " + fmt.Sprint(i) + ": " + err.Error()
		}
		if first == nil {
			first = x
			continue
		}
		a, b := first.Res.Trace, x.Res.Trace
		for k := 0; k < len(a) && k < len(b); k++ {
			if a[k].Thread != b[k].Thread || a[k].Op != b[k].Op || a[k].Obj != b[k].Obj {
				lo := k - 6
				if lo < 0 {
					lo = 0
				}
				return fmt.Sprintf("run %d differs at trace step %d: %+v vs %+v; context %+v", i, k, a[k], b[k], a[lo:k])
			}
		}
		if len(a) != len(b) {
			return fmt.Sprintf("run %d: trace length %d vs %d", i, len(a), len(b))
		}
	}
	return ""
}
